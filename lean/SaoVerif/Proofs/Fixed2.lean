import SaoVerif.Proofs.Fixed
import SaoVerif.Model.Step
/-! Footprint lemmas, continued: Complete, Terminate, Renew, Migrate, permission, the timeout and expiry handlers. -/
namespace SaoVerif

@[grind →] theorem completeMigration_fixed (e : Env) (s s' : State) (o : Order) (sh : Shard) (x : Order × Shard × Order)
    (h : completeMigration e s o sh = .ok (s', x)) : fixedPart s' = fixedPart s := by
  unfold completeMigration softTx softTx' at h
  simp only [bind, Except.bind, pure, Except.pure, throw, throwThe, MonadExceptOf.throw] at h
  split at h
  · cases h
  · split at h
    · cases h
    · rename_i v hv
      have hv' : fixedPart v = fixedPart s := by
        split at hv
        · cases hv
        · rename_i w hw
          split at hv
          · cases hv
          · simp only [Except.ok.injEq] at hv
            rw [← hv]
            exact shardRelease_fixed _ _ _ _ _ _ hw
      split at h
      · split at h
        · cases h
        · rename_i v2 hv2
          have hv2' : fixedPart v2 = fixedPart v := by
            split at hv2
            · cases hv2
            · simp only [Except.ok.injEq] at hv2
              rw [← hv2]
              exact marketMigrate_fixed _ _ _ _
          simp only [Except.ok.injEq, Prod.mk.injEq] at h
          rw [← h.1, foldl_fixed _ (by intro s a; split <;> rfl)]
          split <;> simp [hv2', hv']
      · cases h

@[grind →] theorem completeFresh_fixed (e : Env) (s s' : State) (o : Order) (sh : Shard) (x : Order × Shard × Order)
    (h : completeFresh e s o sh = .ok (s', x)) : fixedPart s' = fixedPart s := by
  unfold completeFresh softTx at h
  simp only [bind, Except.bind, pure, Except.pure, throw, throwThe, MonadExceptOf.throw] at h
  split at h
  · split at h
    · cases h
    · rename_i v hv
      have hv' : fixedPart v = fixedPart s := by
        split at hv
        · cases hv
        · rename_i w hw
          split at hv
          · cases hv
          · simp only [Except.ok.injEq] at hv
            rw [← hv, updateMeta_fixed _ _ _ _ _ hw]; rfl
      split at h
      · cases h
      · rename_i v2 hv2
        have hv2' : fixedPart v2 = fixedPart v := by
          split at hv2
          · cases hv2
          · rename_i w hw
            split at hv2
            · cases hv2
            · simp only [Except.ok.injEq] at hv2
              rw [← hv2]; exact marketDeposit_fixed _ _ _ _ _ hw
        simp only [Except.ok.injEq, Prod.mk.injEq] at h
        rw [← h.1, hv2', hv']
  · simp only [Except.ok.injEq, Prod.mk.injEq] at h
    rw [← h.1]; rfl

@[grind →] theorem completeTail_fixed (e : Env) (s s' : State) (md : Metadata) (o : Order) (sh : Shard) (ip : Order) (p : Addr) (cid : StrId)
    (h : completeTail e s md o sh ip p cid = .ok s') : fixedPart s' = fixedPart s := by
  unfold completeTail at h
  obtain ⟨v, hv, h⟩ := bind_ok h
  obtain ⟨v2, hv2, h⟩ := bind_ok h
  dsimp only at h
  split at h
  · exact (throw_bind_ne h).elim
  simp only [pure, Except.pure, Except.ok.injEq] at h
  rw [← h, setOrder_fixed, increaseReputation_fixed, shardPledge_fixed _ _ _ _ _ _ (softTx_ok hv2), extendMetaDuration_fixed _ _ _ _ hv]
  rfl

@[grind →] theorem saoCompleteBody_fixed (e : Env) (s s' : State) (p : Addr) (oid sz : Nat) (ok : Bool) (cid : StrId)
    (h : saoCompleteBody e s p oid sz ok cid = .ok s') : fixedPart s' = fixedPart s := by
  unfold saoCompleteBody at h
  obtain ⟨g, _, h⟩ := bind_ok h
  obtain ⟨o, sh, md⟩ := g
  dsimp only at h
  obtain ⟨v, hv, h⟩ := bind_ok h
  obtain ⟨s1, o1, sh1, ip⟩ := v
  dsimp only at h
  rw [completeTail_fixed _ _ _ _ _ _ _ _ _ h]
  split at hv
  · exact completeMigration_fixed _ _ _ _ _ _ hv
  · exact completeFresh_fixed _ _ _ _ _ _ hv

@[grind →] theorem saoComplete_fixed (e : Env) (s s' : State) (c p : Addr) (oid sz : Nat) (ok : Bool) (cid : StrId)
    (h : saoComplete e s c p oid sz ok cid = .ok s') : fixedPart s' = fixedPart s := by
  unfold saoComplete at h
  split at h
  · cases h
  · exact saoCompleteBody_fixed _ _ _ _ _ _ _ _ h

/-! ### Terminate -/
@[grind →] theorem terminateLoop_fixed (e : Env) (l : List Nat) (s s' : State) (set set' : List Nat)
    (h : saoTerminate.loop e l s set = .ok (s', set')) : fixedPart s' = fixedPart s := by
  induction l generalizing s set with
  | nil =>
    unfold saoTerminate.loop at h
    simp only [pure, Except.pure, Except.ok.injEq, Prod.mk.injEq] at h
    rw [← h.1]
  | cons oid t ih =>
    unfold saoTerminate.loop at h
    split at h
    · exact ih _ _ h
    · obtain ⟨v, hv, h⟩ := bind_ok h
      rw [ih _ _ h, modelTerminateOrder_fixed _ _ _ _ _ (softTx_ok hv)]

@[grind →] theorem saoTerminate_fixed (e : Env) (s s' : State) (c p : Addr) (ow : Did) (d : Bytes) (sv : Bool) (sd : Did)
    (h : saoTerminate e s c p ow d sv sd = .ok s') : fixedPart s' = fixedPart s := by
  unfold saoTerminate at h
  dsimp only at h
  split at h
  · exact (throw_bind_ne h).elim
  split at h
  · exact (throw_bind_ne h).elim
  split at h
  · rename_i md hmd
    split at h
    · exact (throw_bind_ne h).elim
    · obtain ⟨v, hv, h⟩ := bind_ok h
      obtain ⟨s1, set⟩ := v
      dsimp only at h
      have := softTx'_ok h
      rw [← this, deleteMeta_fixed, foldl_removeShard_fixed, terminateLoop_fixed _ _ _ _ _ _ hv]
  · cases h

/-! ### Renew -/
theorem send_or_self_fixed (s : State) (a b : Addr) (x : Int) :
    fixedPart (match s.send a b x with | .ok s' => s' | .error _ => s) = fixedPart s := by
  split
  · rename_i s' h; exact send_fixed _ _ _ _ _ h
  · rfl

theorem sendLit_or_self_fixed (s : State) (a b : Addr) (x : Int) :
    fixedPart (match s.sendLit a b x with | .ok s' => s' | .error _ => s) = fixedPart s := by
  split
  · rename_i s' h; exact sendLit_fixed _ _ _ _ _ h
  · rfl

@[grind →] theorem renewShard_fixed (e : Env) (s s' : State) (sh : Shard) (oid dur : Nat) (up : Dec) (x : Int × Nat)
    (h : renewShard e s sh oid dur up = .ok (s', x)) : fixedPart s' = fixedPart s := by
  unfold renewShard at h
  obtain ⟨np, _, h⟩ := bind_ok h
  obtain ⟨v, hv, h⟩ := bind_ok h
  obtain ⟨s1, sh1, chg⟩ := v
  dsimp only at h
  simp only [pure, Except.pure, Except.ok.injEq, Prod.mk.injEq] at h
  rw [← h.1, setShard_fixed]
  split at hv
  · dsimp only at hv
    split at hv
    · rename_i pl hpl
      simp only [pure, Except.pure, Except.ok.injEq, Prod.mk.injEq] at hv
      rw [← hv.1, setPledge_fixed]
      split
      · exact send_or_self_fixed _ _ _ _
      · rw [setDebt_fixed]; exact sendLit_or_self_fixed _ _ _ _
    · cases hv
  · simp only [pure, Except.pure, Except.ok.injEq, Prod.mk.injEq] at hv
    rw [← hv.1]

@[grind →] theorem renewLoop_fixed (e : Env) (dur : Nat) (newO : Order) (l : List Shard) (s s' : State) (chg : Int) (mx : Nat) (x : Int × Nat)
    (h : renewBody.loop e dur newO l s chg mx = .ok (s', x)) : fixedPart s' = fixedPart s := by
  induction l generalizing s chg mx with
  | nil =>
    unfold renewBody.loop at h
    simp only [pure, Except.pure, Except.ok.injEq, Prod.mk.injEq] at h
    rw [← h.1]
  | cons sh t ih =>
    unfold renewBody.loop at h
    split at h
    · exact ih _ _ _ h
    · obtain ⟨v, hv, h⟩ := bind_ok h
      obtain ⟨s1, c, ex⟩ := v
      dsimp only at h
      rw [ih _ _ _ h, renewShard_fixed _ _ _ _ _ _ _ _ hv]

@[grind →] theorem renewBody_fixed (e : Env) (s s' : State) (pool : Pool) (c p : Addr) (dur : Nat) (to : Int) (md : Metadata) (o : Order)
    (shs : List Shard) (x : Pool × Bool) (h : renewBody e s pool c p dur to md o shs = .ok (s', x)) : fixedPart s' = fixedPart s := by
  unfold renewBody at h
  obtain ⟨amount, _, h⟩ := bind_ok h
  dsimp only at h
  split at h
  · -- the charge failed: this data id is skipped, the state is what renewOrder returned
    simp only [pure, Except.pure, Except.ok.injEq, Prod.mk.injEq] at h
    rw [← h.1, renewOrder_fixed]
  · obtain ⟨v, hv, h⟩ := bind_ok h
    obtain ⟨s1, c1, mx⟩ := v
    dsimp only at h
    obtain ⟨s2, hs2, h⟩ := bind_ok h
    obtain ⟨v3, hv3, h⟩ := bind_ok h
    obtain ⟨s3, er⟩ := v3
    simp only [pure, Except.pure, Except.ok.injEq, Prod.mk.injEq] at h
    rw [← h.1, updateMeta_fixed _ _ _ _ _ hv3, extendMetaDuration_fixed _ _ _ _ hs2, renewLoop_fixed _ _ _ _ _ _ _ _ _ hv, renewOrder_fixed]

@[grind →] theorem renewOne_fixed (e : Env) (s s' : State) (pool : Pool) (c p : Addr) (sd : Did) (dur : Nat) (to : Int) (d : Bytes)
    (x : Pool × Bool) (h : renewOne e s pool c p sd dur to d = .ok (s', x)) : fixedPart s' = fixedPart s := by
  unfold renewOne at h
  split at h
  · simp only [pure, Except.pure, Except.ok.injEq, Prod.mk.injEq] at h; rw [← h.1]
  · exact renewBody_fixed _ _ _ _ _ _ _ _ _ _ _ _ h

@[grind →] theorem saoRenewLoop_fixed (e : Env) (c p : Addr) (sd : Did) (dur : Nat) (to : Int) (l : List Bytes) (s s' : State) (pool : Pool)
    (oks oks' : List Bool) (h : saoRenew.loop e c p sd dur to l s pool oks = .ok (s', oks')) : fixedPart s' = fixedPart s := by
  induction l generalizing s pool oks with
  | nil =>
    unfold saoRenew.loop at h
    simp only [pure, Except.pure, Except.ok.injEq, Prod.mk.injEq] at h
    rw [← h.1]
  | cons d t ih =>
    unfold saoRenew.loop at h
    obtain ⟨v, hv, h⟩ := bind_ok h
    obtain ⟨s1, pool1, ok⟩ := v
    dsimp only at h
    rw [ih _ _ _ h, renewOne_fixed _ _ _ _ _ _ _ _ _ _ _ hv]

@[grind →] theorem saoRenew_fixed (e : Env) (s s' : State) (c p : Addr) (sv : Bool) (sd : Did) (dur : Nat) (to : Int) (data : List Bytes)
    (oks : List Bool) (h : saoRenew e s c p sv sd dur to data = .ok (s', oks)) : fixedPart s' = fixedPart s := by
  unfold saoRenew at h
  dsimp only at h
  split at h
  · exact (throw_bind_ne h).elim
  split at h
  · exact (throw_bind_ne h).elim
  split at h
  · exact (throw_bind_ne h).elim
  split at h
  · exact (throw_bind_ne h).elim
  split at h
  · exact saoRenewLoop_fixed _ _ _ _ _ _ _ _ _ _ _ _ h
  · cases h

/-! ### Migrate -/
@[grind →] theorem migrateOrderLoop_fixed (s0 : State) (p : Addr) (l : List Nat) (commits : List Bytes) (st s' : State)
    (h : migrateOrderLoop s0 p l commits st = .ok s') : fixedPart s' = fixedPart st := by
  induction l generalizing commits st with
  | nil =>
    unfold migrateOrderLoop at h
    simp only [pure, Except.pure, Except.ok.injEq] at h
    rw [← h]
  | cons oid t ih =>
    unfold migrateOrderLoop at h
    split at h
    · exact ih _ _ h
    · split at h
      · exact ih _ _ h
      · (try dsimp only at h)
        split at h
        · exact ih _ _ h
        · split at h
          · exact ih _ _ h
          · (try dsimp only at h)
            split at h
            · exact ih _ _ h
            · obtain ⟨v, hv, h⟩ := bind_ok h
              obtain ⟨st1, sps⟩ := v
              dsimp only at h
              split at h
              · rw [ih _ _ h, randomSP_fixed _ _ _ _ _ _ hv]
              · rw [ih _ _ h, setOrder_fixed, appendShard_fixed, randomSP_fixed _ _ _ _ _ _ hv]

@[grind →] theorem saoMigrateLoop_fixed (s0 : State) (p : Addr) (l : List Bytes) (st s' : State)
    (h : saoMigrate.loop s0 p l st = .ok s') : fixedPart s' = fixedPart st := by
  induction l generalizing st with
  | nil =>
    unfold saoMigrate.loop at h
    simp only [pure, Except.pure, Except.ok.injEq] at h
    rw [← h]
  | cons d t ih =>
    unfold saoMigrate.loop at h
    split at h
    · exact ih _ h
    · obtain ⟨v, hv, h⟩ := bind_ok h
      rw [ih _ h, migrateOrderLoop_fixed _ _ _ _ _ _ hv]

@[grind →] theorem saoMigrate_fixed (s s' : State) (c p : Addr) (data : List Bytes) (h : saoMigrate s c p data = .ok s') :
    fixedPart s' = fixedPart s := by
  unfold saoMigrate at h
  split at h
  · exact (throw_bind_ne h).elim
  · exact saoMigrateLoop_fixed _ _ _ _ _ h

/-! ### permission, timeout and expiry handlers -/
@[grind →] theorem saoPermission_fixed (s s' : State) (c p : Addr) (ow : Did) (d : Bytes) (ro rw : List Did) (sv : Bool)
    (h : saoPermission s c p ow d ro rw sv = .ok s') : fixedPart s' = fixedPart s := by
  unfold saoPermission at h
  dsimp only at h
  split at h
  · exact (throw_bind_ne h).elim
  split at h
  · exact (throw_bind_ne h).elim
  split at h
  · exact (throw_bind_ne h).elim
  split at h
  · exact (throw_bind_ne h).elim
  have := softTx'_ok h
  rw [← this, updatePermission_fixed]

@[grind =] theorem timeoutSettle_fixed (s : State) (o : Order) (v : TimeoutView) : fixedPart (timeoutSettle s o v) = fixedPart s := by
  unfold timeoutSettle
  dsimp only
  split
  · rw [setOrder_fixed, foldl_removeShard_fixed]
  · rw [foldl_removeShard_fixed]

@[grind →] theorem timeoutGiveUp_fixed (e : Env) (s s' : State) (o : Order) (v : TimeoutView) (oid : Nat)
    (h : timeoutGiveUp e s o v oid = .ok s') : fixedPart s' = fixedPart s := by
  unfold timeoutGiveUp at h
  split at h
  · obtain ⟨x, hx, h⟩ := bind_ok h
    obtain ⟨s1, er⟩ := x
    simp only [pure, Except.pure, Except.ok.injEq] at h
    rw [← h, cancelOrder_fixed _ _ _ _ _ hx, foldl_removeShard_fixed]
  · dsimp only at h
    split at h
    · cases h
    · split at h
      · split at h
        · cases h
        · simp only [pure, Except.pure, Except.ok.injEq] at h
          rw [← h, setOrder_fixed]
          split
          · split
            · rename_i s2 hs2; rw [send_fixed _ _ _ _ _ hs2, foldl_removeShard_fixed]
            · rw [foldl_removeShard_fixed]
          · rw [foldl_removeShard_fixed]
      · simp only [pure, Except.pure, Except.ok.injEq] at h
        rw [← h, setOrder_fixed, foldl_removeShard_fixed]

@[grind →] theorem timeoutReassign_fixed (s s' : State) (o : Order) (v : TimeoutView) (sps : List Node)
    (h : timeoutReassign s o v sps = .ok s') : fixedPart s' = fixedPart s := by
  unfold timeoutReassign at h
  split at h
  · cases h
  · dsimp only at h
    simp only [pure, Except.pure, Except.ok.injEq] at h
    rw [← h, setTimeoutOrderBlock_fixed, setOrder_fixed]
    have gen : ∀ (l : List (Node × Shard)) (acc : Order × State),
        fixedPart (l.foldl (fun (acc : Order × State) (x : Node × Shard) =>
          let s := acc.2.setShard { x.2 with status := ShardTimeout }
          let (nsh, s) := newShardTask s acc.1 x.1.creator
          ({ acc.1 with shards := acc.1.shards ++ [nsh.id] }, s)) acc).2 = fixedPart acc.2 := by
      intro l
      induction l with
      | nil => intro acc; rfl
      | cons a t ih => intro acc; simp only [List.foldl_cons]; rw [ih]; rfl
    exact gen _ (o, s)

@[grind →] theorem handleTimeoutOrder_fixed (e : Env) (s s' : State) (oid : Nat) (h : handleTimeoutOrder e s oid = .ok s') :
    fixedPart s' = fixedPart s := by
  unfold handleTimeoutOrder at h
  split at h
  · simp only [pure, Except.pure, Except.ok.injEq] at h; rw [← h]
  · split at h
    · split at h
      · rename_i s1 x hc
        simp only [pure, Except.pure, Except.ok.injEq] at h
        rw [← h]; exact cancelOrder_fixed _ _ _ _ _ hc
      · cases h
    · dsimp only at h
      split at h
      · simp only [pure, Except.pure, Except.ok.injEq] at h; rw [← h, timeoutSettle_fixed]
      · split at h
        · cases h
        · rename_i s1 sps hsel
          have hs1 : fixedPart s1 = fixedPart s := by
            split at hsel
            · simp only [pure, Except.pure, Except.ok.injEq, Prod.mk.injEq] at hsel; rw [← hsel.1]
            · exact randomSP_fixed _ _ _ _ _ _ hsel
          split at h
          · split at h
            · rw [timeoutGiveUp_fixed _ _ _ _ _ _ h, hs1]
            · simp only [pure, Except.pure, Except.ok.injEq] at h; rw [← h, setTimeoutOrderBlock_fixed, hs1]
          · rw [timeoutReassign_fixed _ _ _ _ _ h, hs1]

@[grind →] theorem handleExpiredShard_fixed (e : Env) (s s' : State) (id : Nat) (h : handleExpiredShard e s id = .ok s') :
    fixedPart s' = fixedPart s := by
  unfold handleExpiredShard at h
  split at h
  · rename_i sh hsh
    split at h
    · rename_i o ho
      dsimp only at h
      obtain ⟨v, hv, h⟩ := bind_ok h
      have hv' : fixedPart v = fixedPart s := by
        split at hv
        · obtain ⟨x, hx, hv⟩ := bind_ok hv
          obtain ⟨s1, er⟩ := x
          simp only [pure, Except.pure, Except.ok.injEq] at hv
          rw [← hv, removeShard_fixed, shardRelease_fixed _ _ _ _ _ _ hx, workerRelease_fixed]
        · simp only [pure, Except.pure, Except.ok.injEq] at hv
          rw [← hv, workerAppend_fixed, setShard_fixed, setExpiredShardBlock_fixed, workerRelease_fixed]
      split at h
      · split at h
        · simp only [pure, Except.pure, Except.ok.injEq] at h; rw [← h, removeOrder_fixed, hv']
        · simp only [pure, Except.pure, Except.ok.injEq] at h; rw [← h, hv']
      · simp only [pure, Except.pure, Except.ok.injEq] at h; rw [← h, setOrder_fixed, hv']
    · simp only [pure, Except.pure, Except.ok.injEq] at h; rw [← h]
  · simp only [pure, Except.pure, Except.ok.injEq] at h; rw [← h]

/-! ### end-blockers -/
theorem foldlM_fixed {α : Type} (f : State → α → TxM State) (hf : ∀ s a s', f s a = .ok s' → fixedPart s' = fixedPart s)
    (l : List α) (s s' : State) (h : l.foldlM f s = .ok s') : fixedPart s' = fixedPart s := by
  induction l generalizing s with
  | nil => simp only [List.foldlM, pure, Except.pure, Except.ok.injEq] at h; rw [← h]
  | cons a t ih =>
    simp only [List.foldlM] at h
    obtain ⟨v, hv, h⟩ := bind_ok h
    rw [ih _ h, hf _ _ _ hv]

@[grind =] theorem nodeEndBlock_fixed (s : State) : fixedPart (nodeEndBlock s) = fixedPart s := rfl

@[grind =] theorem modelEndBlock_fixed (s : State) : fixedPart (modelEndBlock s) = fixedPart s := by
  unfold modelEndBlock
  dsimp only
  split
  · rfl
  · show fixedPart (List.foldl _ s _) = fixedPart s
    apply foldl_fixed
    intro s a
    repeat' split
    all_goals (first | rfl | exact deleteMeta_fixed _ _)

@[grind →] theorem saoEndBlock_fixed (e : Env) (s s' : State) (h : saoEndBlock e s = .ok s') : fixedPart s' = fixedPart s := by
  unfold saoEndBlock at h
  dsimp only at h
  obtain ⟨v, hv, h⟩ := bind_ok h
  have hv' : fixedPart v = fixedPart s := by
    split at hv
    · obtain ⟨w, hw, hv⟩ := bind_ok hv
      simp only [pure, Except.pure, Except.ok.injEq] at hv
      rw [← hv]
      have := foldlM_fixed _ (fun s a s' h => handleTimeoutOrder_fixed e s s' a h) _ _ _ hw
      rw [← this]; rfl
    · simp only [pure, Except.pure, Except.ok.injEq] at hv; rw [← hv]
  split at h
  · obtain ⟨w, hw, h⟩ := bind_ok h
    simp only [pure, Except.pure, Except.ok.injEq] at h
    rw [← h]
    have := foldlM_fixed _ (fun s a s' h => handleExpiredShard_fixed e s s' a h) _ _ _ hw
    rw [← hv', ← this]; rfl
  · simp only [pure, Except.pure, Except.ok.injEq] at h; rw [← h, hv']

@[grind →] theorem endBlock_fixed (e : Env) (s s' : State) (h : endBlock e s = .ok s') : fixedPart s' = fixedPart s := by
  unfold endBlock at h
  obtain ⟨v, hv, h⟩ := bind_ok h
  simp only [pure, Except.pure, Except.ok.injEq] at h
  rw [← h, modelEndBlock_fixed, nodeEndBlock_fixed, saoEndBlock_fixed _ _ _ hv]

/-! ### Store -/
@[grind →] theorem storePlace_fixed (e : Env) (s s' : State) (m : StoreMsg) (o : Order) (pa : Option Addr) (ip : Bool) (a b : Bytes)
    (h : storePlace e s m o pa ip a b = .ok s') : fixedPart s' = fixedPart s := by
  unfold storePlace at h
  (try dsimp only at h)
  obtain ⟨v, hv, h⟩ := bind_ok h
  obtain ⟨s1, sps⟩ := v
  (try dsimp only at h)
  obtain ⟨amount, _, h⟩ := bind_ok h
  obtain ⟨payer, _, h⟩ := bind_ok h
  split at h
  · exact (throw_bind_ne h).elim
  obtain ⟨s2, hs2, h⟩ := bind_ok h
  (try dsimp only at h)
  have hs1 : fixedPart s1 = fixedPart s := by
    split at hv
    · exact getSps_fixed _ _ _ _ _ hv
    · simp only [pure, Except.pure, Except.ok.injEq, Prod.mk.injEq] at hv; rw [← hv.1]
  rw [storeAttach_fixed _ _ _ _ _ _ h]
  split
  · rw [setTimeoutOrderBlock_fixed, newOrder_fixed, sendLit_fixed _ _ _ _ _ hs2, hs1]
  · rw [newOrder_fixed, sendLit_fixed _ _ _ _ _ hs2, hs1]

@[grind →] theorem saoStore_fixed (e : Env) (s s' : State) (m : StoreMsg) (h : saoStore e s m = .ok s') : fixedPart s' = fixedPart s := by
  unfold saoStore at h
  obtain ⟨g, _, h⟩ := bind_ok h
  exact storePlace_fixed _ _ _ _ _ _ _ _ _ h

/-! ### fault reports -/
/-- the outcome of a state transformer leaves the fixed part alone (nothing is claimed about a failure) -/
def okFixed (s : State) (r : TxM State) : Prop :=
  match r with
  | .ok s' => fixedPart s' = fixedPart s
  | .error _ => True

theorem okFixed_elim {s s' : State} {r : TxM State} (h : okFixed s r) (hr : r = .ok s') : fixedPart s' = fixedPart s := by
  subst hr; exact h

@[simp] theorem setFault_fixed (s : State) (f : Fault) : fixedPart (s.setFault f) = fixedPart s := rfl
@[simp] theorem removeFault_fixed (s : State) (f : Fault) : fixedPart (s.removeFault f) = fixedPart s := rfl
@[simp] theorem fishAdd_fixed (s : State) (k : Nat × Nat) (v : Dec) : fixedPart (fishAdd s k v) = fixedPart s := by
  unfold fishAdd; split <;> rfl
@[simp] theorem faultBySpShard_fixed (s : State) (p : Addr) (sh : Nat) : fixedPart (s.faultBySpShard p sh).1 = fixedPart s := by
  unfold State.faultBySpShard
  repeat' split
  all_goals rfl

theorem reportStep_fixed (c p : Addr) (s : State) (x : FaultIn × StrId) : fixedPart (reportStep c p s x) = fixedPart s := by
  unfold reportStep
  dsimp only
  repeat' split
  all_goals (first | rfl | simp)

@[grind →] theorem saoReportFaults_fixed (s s' : State) (c p : Addr) (fs : List FaultIn) (ids : List StrId)
    (h : saoReportFaults s c p fs ids = .ok s') : fixedPart s' = fixedPart s := by
  unfold saoReportFaults at h
  split at h
  · cases h
  · split at h
    · cases h
    · simp only [pure, Except.pure, Except.ok.injEq] at h
      rw [← h]
      exact foldl_fixed _ (reportStep_fixed c p) _ _

theorem okFixed_of_eq {s s1 : State} {r : TxM State} (h : fixedPart s1 = fixedPart s) (hr : okFixed s1 r) : okFixed s r := by
  unfold okFixed at *
  split
  · rename_i s' _; simp only at hr; rw [hr, h]
  · trivial

theorem recoverSettle_okFixed (pool : Pool) (ik : Nat) (s : State) (o : Order) (org fm : Fault) (pl : Pledge) :
    okFixed s (recoverSettle pool ik s o org fm pl) := by
  unfold recoverSettle
  dsimp only
  split
  · simp [okFixed, throw, throwThe, MonadExceptOf.throw]
  · split
    · simp [okFixed, throw, throwThe, MonadExceptOf.throw]
    · simp only [okFixed, pure, Except.pure]
      rw [removeFault_fixed, setPledge_fixed, foldl_fixed _ (fun s c => fishAdd_fixed s _ _), fishAdd_fixed]
      split <;> rfl

theorem recoverStep_okFixed (c p : Addr) (pool : Pool) (ik : Nat) (s : State) (f : FaultIn) :
    okFixed s (recoverStep c p pool ik s f) := by
  have hb := faultBySpShard_fixed s f.provider f.shardId
  unfold recoverStep
  split
  · simp [okFixed, pure, Except.pure]
  split
  · simp [okFixed, pure, Except.pure]
  split
  · simp [okFixed, pure, Except.pure]
  split
  · simp [okFixed, pure, Except.pure]
  split
  · simp [okFixed, pure, Except.pure]
  -- from here on the state is the one `faultBySpShard` returned
  generalize hq : s.faultBySpShard f.provider f.shardId = q at hb ⊢
  obtain ⟨s1, org?⟩ := q
  (try dsimp only at hb ⊢)
  split
  · simp only [okFixed, pure, Except.pure]; exact hb
  split
  · simp only [okFixed, pure, Except.pure]; exact hb
  (try dsimp only)
  split
  · simp only [okFixed, pure, Except.pure]; exact hb
  · split
    · split
      · exact okFixed_of_eq hb (recoverSettle_okFixed _ _ _ _ _ _ _)
      · simp only [okFixed, pure, Except.pure]; rw [setFault_fixed]; exact hb
    · simp only [okFixed, pure, Except.pure]; rw [setFault_fixed]; exact hb

@[grind →] theorem saoRecoverFaults_fixed (s s' : State) (c p : Addr) (fs : List FaultIn) (ik : Nat)
    (h : saoRecoverFaults s c p fs ik = .ok s') : fixedPart s' = fixedPart s := by
  unfold saoRecoverFaults at h
  dsimp only at h
  split at h
  · rename_i node hn
    -- the role check is a guard: whichever branch, the state it hands on is `s`
    have key : ∀ (pool : Pool), fs.foldlM (recoverStep c p pool ik) s = .ok s' → fixedPart s' = fixedPart s := by
      intro pool hf
      exact foldlM_fixed _ (fun s a s' h => okFixed_elim (recoverStep_okFixed c p pool ik s a) h) _ _ _ hf
    split at h
    · split at h
      · exact (throw_bind_ne h).elim
      · split at h
        · exact key _ h
        · cases h
    · split at h
      · exact (throw_bind_ne h).elim
      · split at h
        · exact key _ h
        · cases h
  · cases h

end SaoVerif
