import SaoVerif.Proofs.Fixed
/-! Footprint lemmas, continued: Complete, Terminate, Renew, Migrate, permission, the timeout and expiry handlers. -/
namespace SaoVerif

@[grind →] theorem completeMigration_fixed (e : Env) (s s' : State) (o : Order) (sh : Shard) (x : Order × Shard × Order)
    (h : completeMigration e s o sh = .ok (s', x)) : fixedPart s' = fixedPart s := by
  unfold completeMigration softTx softTx' at h
  simp only [bind, Except.bind, pure, Except.pure, throw, throwThe, MonadExceptOf.throw] at h
  split at h
  · cases h
  · split at h
    · cases h
    · rename_i v hv
      have hv' : fixedPart v = fixedPart s := by
        split at hv
        · cases hv
        · rename_i w hw
          split at hv
          · cases hv
          · simp only [Except.ok.injEq] at hv
            rw [← hv]
            exact shardRelease_fixed _ _ _ _ _ _ hw
      split at h
      · split at h
        · cases h
        · rename_i v2 hv2
          have hv2' : fixedPart v2 = fixedPart v := by
            split at hv2
            · cases hv2
            · simp only [Except.ok.injEq] at hv2
              rw [← hv2]
              exact marketMigrate_fixed _ _ _ _
          simp only [Except.ok.injEq, Prod.mk.injEq] at h
          rw [← h.1, foldl_fixed _ (by intro s a; split <;> rfl)]
          split <;> simp [hv2', hv']
      · cases h

@[grind →] theorem completeFresh_fixed (e : Env) (s s' : State) (o : Order) (sh : Shard) (x : Order × Shard × Order)
    (h : completeFresh e s o sh = .ok (s', x)) : fixedPart s' = fixedPart s := by
  unfold completeFresh softTx at h
  simp only [bind, Except.bind, pure, Except.pure, throw, throwThe, MonadExceptOf.throw] at h
  split at h
  · split at h
    · cases h
    · rename_i v hv
      have hv' : fixedPart v = fixedPart s := by
        split at hv
        · cases hv
        · rename_i w hw
          split at hv
          · cases hv
          · simp only [Except.ok.injEq] at hv
            rw [← hv, updateMeta_fixed _ _ _ _ _ hw]; rfl
      split at h
      · cases h
      · rename_i v2 hv2
        have hv2' : fixedPart v2 = fixedPart v := by
          split at hv2
          · cases hv2
          · rename_i w hw
            split at hv2
            · cases hv2
            · simp only [Except.ok.injEq] at hv2
              rw [← hv2]; exact marketDeposit_fixed _ _ _ _ _ hw
        simp only [Except.ok.injEq, Prod.mk.injEq] at h
        rw [← h.1, hv2', hv']
  · simp only [Except.ok.injEq, Prod.mk.injEq] at h
    rw [← h.1]; rfl

@[grind →] theorem completeTail_fixed (e : Env) (s s' : State) (md : Metadata) (o : Order) (sh : Shard) (ip : Order) (p : Addr) (cid : StrId)
    (h : completeTail e s md o sh ip p cid = .ok s') : fixedPart s' = fixedPart s := by
  unfold completeTail at h
  obtain ⟨v, hv, h⟩ := bind_ok h
  obtain ⟨v2, hv2, h⟩ := bind_ok h
  dsimp only at h
  split at h
  · exact (throw_bind_ne h).elim
  simp only [pure, Except.pure, Except.ok.injEq] at h
  rw [← h, setOrder_fixed, increaseReputation_fixed, shardPledge_fixed _ _ _ _ _ _ (softTx_ok hv2), extendMetaDuration_fixed _ _ _ _ hv]
  rfl

@[grind →] theorem saoCompleteBody_fixed (e : Env) (s s' : State) (p : Addr) (oid sz : Nat) (ok : Bool) (cid : StrId)
    (h : saoCompleteBody e s p oid sz ok cid = .ok s') : fixedPart s' = fixedPart s := by
  unfold saoCompleteBody at h
  obtain ⟨g, _, h⟩ := bind_ok h
  obtain ⟨o, sh, md⟩ := g
  dsimp only at h
  obtain ⟨v, hv, h⟩ := bind_ok h
  obtain ⟨s1, o1, sh1, ip⟩ := v
  dsimp only at h
  rw [completeTail_fixed _ _ _ _ _ _ _ _ _ h]
  split at hv
  · exact completeMigration_fixed _ _ _ _ _ _ hv
  · exact completeFresh_fixed _ _ _ _ _ _ hv

@[grind →] theorem saoComplete_fixed (e : Env) (s s' : State) (c p : Addr) (oid sz : Nat) (ok : Bool) (cid : StrId)
    (h : saoComplete e s c p oid sz ok cid = .ok s') : fixedPart s' = fixedPart s := by
  unfold saoComplete at h
  split at h
  · cases h
  · exact saoCompleteBody_fixed _ _ _ _ _ _ _ _ h

end SaoVerif
