import SaoVerif.Proofs.Fixed2
import SaoVerif.Properties.C14
/-!
# Who changes the capacity totals

`psPart s` = the pool's two totals (capacity, capacity collateral) and, per pledge record, (provider, capacity, capacity
collateral). `qPart s` = the list of providers holding a pledge record, and `psPart s` when no provider has two records. Every
function of the model except `AddVstorage` and `RemoveVstorage` leaves `qPart` as it was: the many functions that rewrite a pledge
record (reward settlement, shard collateral, used capacity, claims, renewals, fault penalties) write it back under the same
provider with the same capacity and capacity collateral. The lemmas follow `Proofs/Fixed.lean` function by function;
`Properties/C14Totals.lean` combines them with `C14_add_keeps_pool_sum` / `C14_remove_keeps_pool_sum` into the invariant
"pool totals = sums over the pledge records" for every history.
-/
namespace SaoVerif

def psPart (s : State) : Option (Int × Int) × List (Addr × Int × Int) :=
  (s.pool.map (fun p => (p.totalStorage, p.totalPledged)), s.pledges.map (fun p => (p.creator, p.totalStorage, p.totalStoragePledged)))

/-- `x`, provided no provider occurs twice in `cr` -/
def qGuard {α : Type} (cr : List Addr) (x : α) : Option α := if cr.Nodup then some x else none

def qPart (s : State) : List Addr × Option (Option (Int × Int) × List (Addr × Int × Int)) :=
  (s.pledges.map (·.creator), qGuard (s.pledges.map (·.creator)) (psPart s))

theorem qPart_of_eq {s s' : State} (hpool : s'.pool.map (fun p => (p.totalStorage, p.totalPledged)) = s.pool.map (fun p => (p.totalStorage, p.totalPledged)))
    (hpl : s'.pledges = s.pledges) : qPart s' = qPart s := by
  unfold qPart psPart
  rw [hpl, hpool]

/-- in a list without two records of one provider, the record `find?` returns is the only one of that provider -/
theorem unique_find (l : List Pledge) (c : Addr) (old x : Pledge) (hu : (l.map (·.creator)).Nodup)
    (hf : l.find? (·.creator = c) = some old) (hx : x ∈ l) (hc : x.creator = c) : x = old := by
  induction l with
  | nil => cases hx
  | cons y t ih =>
    simp only [List.map_cons, List.nodup_cons] at hu
    simp only [List.find?_cons] at hf
    by_cases hy : y.creator = c
    · simp only [hy, decide_true] at hf
      simp only [Option.some.injEq] at hf
      rcases List.mem_cons.mp hx with h | h
      · rw [h, hf]
      · exfalso
        apply hu.1
        rw [hy, ← hc]
        exact List.mem_map_of_mem h
    · simp only [hy, decide_false] at hf
      rcases List.mem_cons.mp hx with h | h
      · rw [h] at hc; exact absurd hc hy
      · exact ih hu.2 hf h

/-- writing a pledge record back under the same provider with the same capacity and capacity collateral -/
theorem setPledge_q (s : State) (c : Addr) (old p : Pledge) (h : s.getPledge c = some old) (hc : p.creator = old.creator)
    (h1 : p.totalStorage = old.totalStorage) (h2 : p.totalStoragePledged = old.totalStoragePledged) :
    qPart (s.setPledge p) = qPart s := by
  have hoc := getPledge_creator s c old h
  have hpc : p.creator = c := by rw [hc, hoc]
  have hany : s.pledges.any (·.creator = p.creator) = true := by rw [hpc]; exact any_of_find _ _ _ h
  have hcr : (s.setPledge p).pledges.map (·.creator) = s.pledges.map (·.creator) := by
    unfold State.setPledge
    simp only [hany, if_true]
    exact map_replace_creator _ _
  unfold qPart
  rw [hcr]
  congr 1
  unfold qGuard
  by_cases hu : (s.pledges.map (·.creator)).Nodup
  · simp only [hu, if_true]
    congr 1
    unfold psPart
    have : (s.setPledge p).pool = s.pool := rfl
    rw [this]
    congr 1
    unfold State.setPledge
    simp only [hany, if_true, List.map_map]
    apply List.map_congr_left
    intro x hx
    simp only [Function.comp]
    by_cases hxc : x.creator = p.creator
    · simp only [hxc, if_true]
      have : x = old := unique_find _ c old x hu (by unfold State.getPledge at h; exact h) hx (by rw [hxc, hpc])
      rw [this, hc, h1, h2]
    · simp only [hxc, if_false]
  · simp only [hu, if_false]

/-- … on a later state whose pledge records are still those of the state the record was read from -/
theorem setPledge_q_of (s0 s : State) (c : Addr) (old p : Pledge) (h : s0.getPledge c = some old) (hpl : s.pledges = s0.pledges)
    (hc : p.creator = old.creator) (h1 : p.totalStorage = old.totalStorage) (h2 : p.totalStoragePledged = old.totalStoragePledged) :
    qPart (s.setPledge p) = qPart s := by
  apply setPledge_q s c old p _ hc h1 h2
  unfold State.getPledge at h ⊢
  rw [hpl]; exact h


@[simp] theorem setOrder_q (s : State) (o : Order) : qPart (s.setOrder o) = qPart s := rfl
@[simp] theorem removeOrder_q (s : State) (i : Nat) : qPart (s.removeOrder i) = qPart s := rfl
@[simp] theorem appendOrder_q (s : State) (o : Order) : qPart (s.appendOrder o).2 = qPart s := rfl
@[simp] theorem setShard_q (s : State) (x : Shard) : qPart (s.setShard x) = qPart s := rfl
@[simp] theorem removeShard_q (s : State) (i : Nat) : qPart (s.removeShard i) = qPart s := rfl
@[simp] theorem appendShard_q (s : State) (x : Shard) : qPart (s.appendShard x).2 = qPart s := rfl
@[simp] theorem setMeta_q (s : State) (m : Metadata) : qPart (s.setMeta m) = qPart s := rfl
@[simp] theorem removeMeta_q (s : State) (d : Bytes) : qPart (s.removeMeta d) = qPart s := rfl
@[simp] theorem setModel_q (s : State) (m : ModelEntry) : qPart (s.setModel m) = qPart s := rfl
@[simp] theorem removeModel_q (s : State) (k : ModelKey) : qPart (s.removeModel k) = qPart s := rfl
@[simp] theorem setNode_q (e : Env) (s : State) (n : Node) : qPart (s.setNode e n) = qPart s := rfl
@[simp] theorem setWorker_q (s : State) (w : Worker) : qPart (s.setWorker w) = qPart s := rfl
@[simp] theorem setDebt_q (s : State) (a : Addr) (d : Int) : qPart (s.setDebt a d) = qPart s := rfl
@[simp] theorem removeDebt_q (s : State) (a : Addr) : qPart (s.removeDebt a) = qPart s := rfl
@[simp] theorem setBal_q (s : State) (a : Addr) (v : Int) : qPart (s.setBal a v) = qPart s := rfl
@[simp] theorem setDataExpireBlock_q (s : State) (d : Bytes) (a : Nat) : qPart (setDataExpireBlock s d a) = qPart s := rfl
@[simp] theorem setTimeoutOrderBlock_q (s : State) (i a : Nat) : qPart (setTimeoutOrderBlock s i a) = qPart s := rfl
@[simp] theorem setExpiredShardBlock_q (s : State) (i a : Nat) : qPart (setExpiredShardBlock s i a) = qPart s := rfl

theorem send_q (s s' : State) (a b : Addr) (x : Int) (h : s.send a b x = .ok s') : qPart s' = qPart s := by
  unfold State.send at h
  split at h
  · cases h
  · split at h
    · cases h
    · simp only [pure, Except.pure, Except.ok.injEq] at h; subst h; rfl

theorem sendLit_q (s s' : State) (a b : Addr) (x : Int) (h : s.sendLit a b x = .ok s') : qPart s' = qPart s := by
  unfold State.sendLit at h
  split at h
  · cases h
  · exact send_q _ _ _ _ _ h

theorem removeDataExpireBlock_q (s s' : State) (d : Bytes) (a : Nat) (h : removeDataExpireBlock s d a = .ok s') :
    qPart s' = qPart s := by
  unfold removeDataExpireBlock at h
  split at h
  · simp only [pure, Except.pure, Except.ok.injEq] at h; subst h; rfl
  · split at h
    · cases h
    · simp only at h
      split at h <;> (simp only [pure, Except.pure, Except.ok.injEq] at h; subst h; rfl)

/-! ### market -/
theorem workerRelease_q (s : State) (o : Order) (sh : Shard) : qPart (workerRelease s o sh).1 = qPart s := by
  unfold workerRelease; split <;> rfl

@[simp] theorem workerAppend_q (s : State) (o : Order) (sh : Shard) : qPart (workerAppend s o sh) = qPart s := rfl

theorem marketDeposit_q (e : Env) (s s' : State) (o : Order) (x : Option String)
    (h : marketDeposit e s o = .ok (s', x)) : qPart s' = qPart s := by
  unfold marketDeposit at h
  split at h
  · simp only [pure, Except.pure, Except.ok.injEq, Prod.mk.injEq] at h; rw [← h.1]
  · split at h
    · simp only [pure, Except.pure, Except.ok.injEq, Prod.mk.injEq] at h; rw [← h.1]
    · rename_i s1 hs
      simp only [pure, Except.pure, Except.ok.injEq, Prod.mk.injEq] at h; rw [← h.1]
      exact send_q _ _ _ _ _ hs

theorem withdrawLoop_q (o : Order) (l : List Nat) (s : State) (r : Dec) : qPart (withdrawLoop o l s r).1 = qPart s := by
  induction l generalizing s r with
  | nil => rfl
  | cons id t ih =>
    unfold withdrawLoop
    split
    · exact ih _ _
    · split
      · exact ih _ _
      · simp only
        split
        · split
          · rename_i sh _ _ _ _ s1 m hw
            have := workerRelease_q s o sh
            rw [hw] at this
            exact this
          · rename_i sh _ _ _ _ s1 hw
            rw [ih]
            have := workerRelease_q s o sh
            rw [hw] at this
            exact this
        · split
          · exact ih _ _
          · split <;> exact ih _ _

attribute [grind →] send_q sendLit_q removeDataExpireBlock_q marketDeposit_q
attribute [grind =] setOrder_q removeOrder_q appendOrder_q setShard_q removeShard_q appendShard_q
  setMeta_q removeMeta_q setModel_q removeModel_q setNode_q setWorker_q setDebt_q
  removeDebt_q setBal_q setDataExpireBlock_q setTimeoutOrderBlock_q setExpiredShardBlock_q workerAppend_q
  workerRelease_q withdrawLoop_q

theorem qPart_def (s : State) : qPart s = (s.pledges.map (·.creator), qGuard (s.pledges.map (·.creator)) (psPart s)) := rfl

macro "q_auto" h:ident : tactic => `(tactic| (
  simp only [bind, Except.bind, pure, Except.pure, throw, throwThe, MonadExceptOf.throw] at $h:ident
  repeat' (split at $h:ident)
  all_goals (first | cases $h:ident | skip)
  all_goals (try simp only [Except.ok.injEq, Prod.mk.injEq] at $h:ident)
  all_goals (first | grind | (simp only [qPart_def, psPart, State.setOrder, State.removeOrder, State.setShard, State.removeShard, State.setMeta,
      State.removeMeta, State.setModel, State.removeModel, State.setNode, State.setWorker, State.setDebt,
      State.removeDebt, State.setBal, State.setMeta]; grind [qPart_def]))))

@[grind →] theorem marketWithdraw_q (e : Env) (s s' : State) (o : Order) (x : Int × Option String)
    (h : marketWithdraw e s o = .ok (s', x)) : qPart s' = qPart s := by
  unfold marketWithdraw at h
  q_auto h

@[grind =] theorem marketMigrate_q (s : State) (o : Order) (a b : Shard) : qPart (marketMigrate s o a b).1 = qPart s := by
  unfold marketMigrate
  split <;> grind

/-! ### node -/
@[grind →] theorem nodeCreate_q (e : Env) (s s' : State) (c : Addr) (h : nodeCreate e s c = .ok s') : qPart s' = qPart s := by
  unfold nodeCreate at h
  q_auto h

@[grind →] theorem nodeReset_q (e : Env) (s s' : State) (m : ResetMsg) (h : nodeReset e s m = .ok s') : qPart s' = qPart s := by
  unfold nodeReset at h
  q_auto h

@[grind →] theorem promoteIfDue_q (e : Env) (s s' : State) (c : Addr) (p : Pledge) (h : promoteIfDue e s c p = .ok s') :
    qPart s' = qPart s := by
  unfold promoteIfDue at h
  q_auto h

@[grind →] theorem demoteIfDue_q (e : Env) (s s' : State) (c : Addr) (p : Pledge) (h : demoteIfDue e s c p = .ok s') :
    qPart s' = qPart s := by
  unfold demoteIfDue at h
  q_auto h

@[grind =] theorem repayPledgeDebt_q (s : State) (sp : Addr) (l : List Int) : qPart (repayPledgeDebt s sp l).1 = qPart s := by
  unfold repayPledgeDebt
  repeat' split
  all_goals grind

@[grind →] theorem marketClaim_q (s s' : State) (sp : Addr) (x : Int) (h : marketClaim s sp = .ok (s', x)) : qPart s' = qPart s := by
  unfold marketClaim at h
  q_auto h

/-! #### the functions that rewrite a pledge record -/
theorem send_pp (s s' : State) (a b : Addr) (x : Int) (h : s.send a b x = .ok s') : s'.pledges = s.pledges ∧ s'.pool = s.pool :=
  ⟨(send_frame _ _ _ _ _ h).1, (send_frame _ _ _ _ _ h).2.1⟩

theorem sendLit_pp (s s' : State) (a b : Addr) (x : Int) (h : s.sendLit a b x = .ok s') : s'.pledges = s.pledges ∧ s'.pool = s.pool := by
  unfold State.sendLit at h
  split at h
  · cases h
  · exact send_pp _ _ _ _ _ h

theorem repay_pp (s : State) (sp : Addr) (l : List Int) :
    (repayPledgeDebt s sp l).1.pledges = s.pledges ∧ (repayPledgeDebt s sp l).1.pool = s.pool := by
  unfold repayPledgeDebt
  repeat' split
  all_goals exact ⟨rfl, rfl⟩

theorem marketClaim_pp (s s' : State) (sp : Addr) (x : Int) (h : marketClaim s sp = .ok (s', x)) : s'.pledges = s.pledges ∧ s'.pool = s.pool := by
  unfold marketClaim at h
  split at h
  · simp only [pure, Except.pure, Except.ok.injEq, Prod.mk.injEq] at h; rw [← h.1]; exact ⟨rfl, rfl⟩
  · dsimp only at h
    split at h
    · simp only [pure, Except.pure, Except.ok.injEq, Prod.mk.injEq] at h; rw [← h.1]; exact ⟨rfl, rfl⟩
    · split at h
      · exact (throw_bind_ne h).elim
      · simp only [pure, Except.pure, bind, Except.bind, Except.ok.injEq, Prod.mk.injEq] at h; rw [← h.1]; exact ⟨rfl, rfl⟩

theorem q_of_pp {s s' : State} (h : s'.pledges = s.pledges ∧ s'.pool = s.pool) : qPart s' = qPart s :=
  qPart_of_eq (by rw [h.2]) h.1

theorem settle_keys (pool : Pool) (p : Pledge) :
    (settle pool p).creator = p.creator ∧ (settle pool p).totalStorage = p.totalStorage ∧ (settle pool p).totalStoragePledged = p.totalStoragePledged := by
  unfold settle; split <;> exact ⟨rfl, rfl, rfl⟩

@[grind →] theorem shardRelease_q (e : Env) (s s' : State) (sp : Addr) (sh : Option Shard) (x : Option String)
    (h : shardRelease e s sp sh = .ok (s', x)) : qPart s' = qPart s := by
  unfold shardRelease at h
  simp only [bind, Except.bind, pure, Except.pure, throw, throwThe, MonadExceptOf.throw] at h
  split at h
  · rename_i pledge hp
    have hk := settle_keys
    split at h
    · rename_i pool _
      split at h
      · simp only [Except.ok.injEq, Prod.mk.injEq] at h
        rw [← h.1]
        exact setPledge_q s sp pledge _ hp (by exact (hk pool pledge).1) (by exact (hk pool pledge).2.1) (by exact (hk pool pledge).2.2)
      · rename_i shv
        have hr := repay_pp s shv.sp [shv.pledge]
        split at h
        · simp only [Except.ok.injEq, Prod.mk.injEq] at h; rw [← h.1]; exact q_of_pp hr
        · rename_i s2 hs2
          have h2 : s2.pledges = s.pledges ∧ s2.pool = s.pool := by
            split at hs2
            · have := send_pp _ _ _ _ _ hs2; exact ⟨this.1.trans hr.1, this.2.trans hr.2⟩
            · simp only [Except.ok.injEq] at hs2; rw [← hs2]; exact hr
          split at h
          · cases h
          · simp only [Except.ok.injEq, Prod.mk.injEq] at h
            rw [← h.1]
            exact (setPledge_q_of s s2 sp pledge _ hp h2.1 (by exact (hk pool pledge).1) (by exact (hk pool pledge).2.1) (by exact (hk pool pledge).2.2)).trans (q_of_pp h2)
    · simp only [Except.ok.injEq, Prod.mk.injEq] at h; rw [← h.1]
  · simp only [Except.ok.injEq, Prod.mk.injEq] at h; rw [← h.1]

@[grind →] theorem shardPledge_q (e : Env) (s s' : State) (sh : Shard) (up : Dec) (x : Option String)
    (h : shardPledge e s sh up = .ok (s', x)) : qPart s' = qPart s := by
  unfold shardPledge at h
  simp only [bind, Except.bind, pure, Except.pure, throw, throwThe, MonadExceptOf.throw] at h
  split at h
  · rename_i pledge hp
    have hk := settle_keys
    split at h
    · rename_i pool _
      split at h
      · simp only [Except.ok.injEq, Prod.mk.injEq] at h; rw [← h.1]
      · split at h
        · cases h
        · rename_i sp0 _
          split at h
          · simp only [Except.ok.injEq, Prod.mk.injEq] at h; rw [← h.1]
          · rename_i s2 hs2
            simp only [Except.ok.injEq, Prod.mk.injEq] at h
            rw [← h.1, setShard_q]
            have h2 : s2.pledges = s.pledges ∧ s2.pool = s.pool := by
              repeat' (split at hs2)
              all_goals (first | cases hs2 | skip)
              all_goals (try simp only [Except.ok.injEq] at hs2)
              all_goals (first | exact send_pp _ _ _ _ _ hs2 | (have := sendLit_pp _ _ _ _ _ (by assumption); exact this))
            exact (setPledge_q_of s s2 sh.sp pledge _ hp h2.1 (by exact (hk pool pledge).1) (by exact (hk pool pledge).2.1)
              (by exact (hk pool pledge).2.2)).trans (q_of_pp h2)
    · simp only [Except.ok.injEq, Prod.mk.injEq] at h; rw [← h.1]
  · simp only [Except.ok.injEq, Prod.mk.injEq] at h; rw [← h.1]

theorem if_send_pp (s s' : State) (c : Prop) [Decidable c] (a b : Addr) (x : Int)
    (h : (if c then s.send a b x else pure s : TxM State) = .ok s') : s'.pledges = s.pledges ∧ s'.pool = s.pool := by
  split at h
  · exact send_pp _ _ _ _ _ h
  · simp only [pure, Except.pure, Except.ok.injEq] at h; rw [← h]; exact ⟨rfl, rfl⟩

theorem pp_trans {a b c : State} (h1 : b.pledges = a.pledges ∧ b.pool = a.pool) (h2 : c.pledges = b.pledges ∧ c.pool = b.pool) :
    c.pledges = a.pledges ∧ c.pool = a.pool := ⟨h2.1.trans h1.1, h2.2.trans h1.2⟩

@[grind →] theorem nodeClaimReward_q (e : Env) (s s' : State) (c : Addr) (x : Int)
    (h : nodeClaimReward e s c = .ok (s', x)) : qPart s' = qPart s := by
  unfold nodeClaimReward at h
  split at h
  · exact (throw_bind_ne h).elim
  obtain ⟨v, hv, h⟩ := bind_ok h
  obtain ⟨s1, er⟩ := v
  (try dsimp only at h)
  have q1 := shardRelease_q _ _ _ _ _ _ hv
  split at h
  · rename_i pledge hp
    (try dsimp only at h)
    split at h
    · exact (throw_bind_ne h).elim
    split at h
    · exact (throw_bind_ne h).elim
    obtain ⟨w, hw, h⟩ := bind_ok h
    obtain ⟨s2, worker⟩ := w
    dsimp only at h
    obtain ⟨s3, hs3, h⟩ := bind_ok h
    obtain ⟨s4, hs4, h⟩ := bind_ok h
    obtain ⟨s5, hs5, h⟩ := bind_ok h
    simp only [pure, Except.pure, Except.ok.injEq, Prod.mk.injEq] at h
    rw [← h.1]
    have p2 := marketClaim_pp _ _ _ _ hw
    have p6 : s5.pledges = s1.pledges ∧ s5.pool = s1.pool :=
      pp_trans p2 (pp_trans (pp_trans (pp_trans (repay_pp s2 c _) (if_send_pp _ _ _ _ _ _ hs3)) (if_send_pp _ _ _ _ _ _ hs4))
        (if_send_pp _ _ _ _ _ _ hs5))
    exact ((setPledge_q_of s1 s5 c pledge _ hp p6.1 (by exact rfl) (by exact rfl) (by exact rfl)).trans (q_of_pp p6)).trans q1
  · cases h

/-! ### order / model keepers -/
@[grind =] theorem newShardTask_q (s : State) (o : Order) (sp : Addr) : qPart (newShardTask s o sp).2 = qPart s := rfl

@[grind =] theorem generateShards_q (s : State) (o : Order) (sps : List Addr) : qPart (generateShards s o sps).2 = qPart s := by
  unfold generateShards
  have gen : ∀ (l : List Addr) (acc : Order × State),
      qPart (l.foldl (fun (acc : Order × State) sp =>
        let (sh, s') := newShardTask acc.2 acc.1 sp
        ({ acc.1 with shards := acc.1.shards ++ [sh.id] }, s')) acc).2 = qPart acc.2 := by
    intro l
    induction l with
    | nil => intro acc; rfl
    | cons a t ih => intro acc; simp only [List.foldl_cons]; rw [ih]; rfl
  exact gen sps (o, s)

@[grind =] theorem newOrder_q (s : State) (o : Order) (sps : List Addr) : qPart (newOrder s o sps).2 = qPart s := by
  unfold newOrder
  simp only
  rw [setOrder_q, generateShards_q]
  rfl

@[grind =] theorem renewOrder_q (e : Env) (s : State) (o : Order) : qPart (renewOrder e s o).1 = qPart s := by
  unfold renewOrder
  repeat' split
  all_goals (first | rfl | grind)

@[grind →] theorem sendToDidBalances_q (s s' : State) (d : Did) (a : Int) (h : sendToDidBalances s d a = .ok s') : s' = s := by
  unfold sendToDidBalances at h
  split at h
  · simp only [pure, Except.pure, Except.ok.injEq] at h; exact h.symm
  · cases h

@[grind →] theorem orderTerminate_q (e : Env) (s s' : State) (oid : Nat) (r : Int) (x : Option String)
    (h : orderTerminate e s oid r = .ok (s', x)) : qPart s' = qPart s := by
  unfold orderTerminate at h
  q_auto h

@[grind =] theorem refundOrder_q (e : Env) (s : State) (oid : Nat) : qPart (refundOrder e s oid).1 = qPart s := by
  unfold refundOrder
  repeat' split
  all_goals (first | rfl | grind)

@[grind →] theorem resetMetaDuration_q (s s' : State) (m m' : Metadata) (h : resetMetaDuration s m = .ok (s', m')) :
    qPart s' = qPart s := by
  unfold resetMetaDuration at h
  q_auto h

@[grind →] theorem extendMetaDuration_q (s s' : State) (d : Bytes) (a : Nat) (h : extendMetaDuration s d a = .ok s') :
    qPart s' = qPart s := by
  unfold extendMetaDuration at h
  q_auto h

@[grind =] theorem deleteMeta_q (s : State) (d : Bytes) : qPart (deleteMeta s d).1 = qPart s := by
  unfold deleteMeta
  split <;> rfl

@[grind →] theorem terminateRel_q (e : Env) (o : Order) (l : List Nat) (s s' : State) (x : Option String)
    (h : modelTerminateOrder.rel e o l s = .ok (s', x)) : qPart s' = qPart s := by
  induction l generalizing s with
  | nil =>
    unfold modelTerminateOrder.rel at h
    simp only [pure, Except.pure, Except.ok.injEq, Prod.mk.injEq] at h
    rw [← h.1]
  | cons id t ih =>
    unfold modelTerminateOrder.rel at h
    split at h
    · exact ih _ h
    · split at h
      · simp only [bind, Except.bind, pure, Except.pure] at h
        split at h
        · cases h
        · rename_i y hy
          obtain ⟨s1, er⟩ := y
          simp only at h
          split at h
          · simp only [Except.ok.injEq, Prod.mk.injEq] at h; rw [← h.1]; exact shardRelease_q _ _ _ _ _ _ hy
          · rw [ih _ h]; exact shardRelease_q _ _ _ _ _ _ hy
      · exact ih _ h

@[grind →] theorem modelTerminateOrder_q (e : Env) (s s' : State) (o : Order) (x : Option String)
    (h : modelTerminateOrder e s o = .ok (s', x)) : qPart s' = qPart s := by
  unfold modelTerminateOrder at h
  q_auto h

@[grind →] theorem rollbackMeta_q (s s' : State) (d : Bytes) (h : rollbackMeta s d = .ok s') : qPart s' = qPart s := by
  unfold rollbackMeta at h
  q_auto h

@[grind →] theorem cancelOrder_q (e : Env) (s s' : State) (oid : Nat) (x : Option String)
    (h : cancelOrder e s oid = .ok (s', x)) : qPart s' = qPart s := by
  unfold cancelOrder at h
  q_auto h

@[grind →] theorem updateMetaStatusAndCommit_q (s s' : State) (o : Order) (x : Option String)
    (h : updateMetaStatusAndCommit s o = .ok (s', x)) : qPart s' = qPart s := by
  unfold updateMetaStatusAndCommit at h
  q_auto h

@[grind =] theorem newMeta_q (s : State) (o : Order) (m : Metadata) : qPart (newMeta s o m).1 = qPart s := by
  unfold newMeta
  repeat' split
  all_goals rfl

@[grind =] theorem updatePermission_q (s : State) (ow : Did) (d : Bytes) (ro rw : List Did) :
    qPart (updatePermission s ow d ro rw).1 = qPart s := by
  unfold updatePermission
  repeat' split
  all_goals rfl

@[grind =] theorem foldl_removeShard_q (ids : List Nat) (s : State) :
    qPart (ids.foldl (fun s id => s.removeShard id) s) = qPart s := by
  induction ids generalizing s with
  | nil => rfl
  | cons a t ih => simp only [List.foldl_cons]; rw [ih]; rfl

@[grind →] theorem updateMetaLoop_q (e : Env) (lc : Bytes) (fuel : Nat) (s s' : State) (orders shardSet : List Nat)
    (x : List Nat × List Nat × Option String)
    (h : updateMeta.loop e lc fuel s orders shardSet = .ok (s', x)) : qPart s' = qPart s := by
  induction fuel generalizing s orders shardSet with
  | zero =>
    unfold updateMeta.loop at h
    simp only [pure, Except.pure, Except.ok.injEq, Prod.mk.injEq] at h
    rw [← h.1]
  | succ n ih =>
    unfold updateMeta.loop at h
    split at h
    · simp only [pure, Except.pure, Except.ok.injEq, Prod.mk.injEq] at h; rw [← h.1]
    · split at h
      · simp only [pure, Except.pure, Except.ok.injEq, Prod.mk.injEq] at h; rw [← h.1]
      · split at h
        · simp only [pure, Except.pure, Except.ok.injEq, Prod.mk.injEq] at h; rw [← h.1]
        · simp only [bind, Except.bind, pure, Except.pure] at h
          split at h
          · cases h
          · rename_i y hy
            obtain ⟨s1, er⟩ := y
            simp only at h
            split at h
            · simp only [Except.ok.injEq, Prod.mk.injEq] at h; rw [← h.1]; exact modelTerminateOrder_q _ _ _ _ _ hy
            · rw [ih _ _ _ h]; exact modelTerminateOrder_q _ _ _ _ _ hy

@[grind →] theorem updateMeta_q (e : Env) (s s' : State) (o : Order) (x : Option String)
    (h : updateMeta e s o = .ok (s', x)) : qPart s' = qPart s := by
  unfold updateMeta at h
  q_auto h

/-! ### sao handlers -/
@[grind →] theorem getSps_q (s s' : State) (o : Order) (d : Bytes) (sps : List Node) (h : getSps s o d = .ok (s', sps)) :
    qPart s' = qPart s := by
  have := getSps_round _ _ _ _ _ h
  unfold sameButRound at this
  rw [this]; rfl

@[grind →] theorem randomSP_q (s s' : State) (c : Int) (ig : List Addr) (sz : Int) (sps : List Node)
    (h : randomSP s c ig sz = .ok (s', sps)) : qPart s' = qPart s := by
  have := randomSP_round _ _ _ _ _ _ h
  unfold sameButRound at this
  rw [this]; rfl

@[grind →] theorem storeAttach_q (s s' : State) (m : StoreMsg) (o : Order) (a b : Bytes) (h : storeAttach s m o a b = .ok s') :
    qPart s' = qPart s := by
  unfold storeAttach softTx softTx' at h
  q_auto h

@[grind →] theorem saoReadyBody_q (s s' : State) (o : Order) (h : saoReadyBody s o = .ok s') : qPart s' = qPart s := by
  unfold saoReadyBody at h
  q_auto h

@[grind →] theorem saoReady_q (s s' : State) (c p : Addr) (oid : Nat) (h : saoReady s c p oid = .ok s') : qPart s' = qPart s := by
  unfold saoReady at h
  q_auto h

@[grind =] theorem increaseReputation_q (e : Env) (s : State) (a : Addr) (v : Int) : qPart (increaseReputation e s a v) = qPart s := by
  unfold increaseReputation
  split <;> rfl

@[grind →] theorem cancelLoop_q (e : Env) (l : List Nat) (s s' : State) (h : saoCancelBody.loop e l s = .ok s') :
    qPart s' = qPart s := by
  induction l generalizing s with
  | nil => unfold saoCancelBody.loop at h; simp only [pure, Except.pure, Except.ok.injEq] at h; rw [← h]
  | cons id t ih =>
    unfold saoCancelBody.loop softTx at h
    simp only [bind, Except.bind, pure, Except.pure, throw, throwThe, MonadExceptOf.throw] at h
    split at h
    · split at h
      · cases h
      · rename_i v hv
        rw [ih _ h, removeShard_q]
        repeat' (split at hv)
        all_goals (first | cases hv | skip)
        all_goals (try simp only [Except.ok.injEq] at hv)
        all_goals grind
    · cases h

@[grind →] theorem saoCancelBody_q (e : Env) (s s' : State) (o : Order) (oid : Nat) (h : saoCancelBody e s o oid = .ok s') :
    qPart s' = qPart s := by
  unfold saoCancelBody softTx at h
  q_auto h

@[grind →] theorem saoCancel_q (e : Env) (s s' : State) (c p : Addr) (oid : Nat) (h : saoCancel e s c p oid = .ok s') :
    qPart s' = qPart s := by
  unfold saoCancel at h
  q_auto h

theorem foldl_q {α : Type} (f : State → α → State) (hf : ∀ s a, qPart (f s a) = qPart s) (l : List α) (s : State) :
    qPart (l.foldl f s) = qPart s := by
  induction l generalizing s with
  | nil => rfl
  | cons a t ih => simp only [List.foldl_cons]; rw [ih, hf]

@[grind →] theorem completeMigration_q (e : Env) (s s' : State) (o : Order) (sh : Shard) (x : Order × Shard × Order)
    (h : completeMigration e s o sh = .ok (s', x)) : qPart s' = qPart s := by
  unfold completeMigration softTx softTx' at h
  simp only [bind, Except.bind, pure, Except.pure, throw, throwThe, MonadExceptOf.throw] at h
  split at h
  · cases h
  · split at h
    · cases h
    · rename_i v hv
      have hv' : qPart v = qPart s := by
        split at hv
        · cases hv
        · rename_i w hw
          split at hv
          · cases hv
          · simp only [Except.ok.injEq] at hv
            rw [← hv]
            exact shardRelease_q _ _ _ _ _ _ hw
      split at h
      · split at h
        · cases h
        · rename_i v2 hv2
          have hv2' : qPart v2 = qPart v := by
            split at hv2
            · cases hv2
            · simp only [Except.ok.injEq] at hv2
              rw [← hv2]
              exact marketMigrate_q _ _ _ _
          simp only [Except.ok.injEq, Prod.mk.injEq] at h
          rw [← h.1, foldl_q _ (by intro s a; split <;> rfl)]
          split <;> simp [hv2', hv']
      · cases h

@[grind →] theorem completeFresh_q (e : Env) (s s' : State) (o : Order) (sh : Shard) (x : Order × Shard × Order)
    (h : completeFresh e s o sh = .ok (s', x)) : qPart s' = qPart s := by
  unfold completeFresh softTx at h
  simp only [bind, Except.bind, pure, Except.pure, throw, throwThe, MonadExceptOf.throw] at h
  split at h
  · split at h
    · cases h
    · rename_i v hv
      have hv' : qPart v = qPart s := by
        split at hv
        · cases hv
        · rename_i w hw
          split at hv
          · cases hv
          · simp only [Except.ok.injEq] at hv
            rw [← hv, updateMeta_q _ _ _ _ _ hw]; rfl
      split at h
      · cases h
      · rename_i v2 hv2
        have hv2' : qPart v2 = qPart v := by
          split at hv2
          · cases hv2
          · rename_i w hw
            split at hv2
            · cases hv2
            · simp only [Except.ok.injEq] at hv2
              rw [← hv2]; exact marketDeposit_q _ _ _ _ _ hw
        simp only [Except.ok.injEq, Prod.mk.injEq] at h
        rw [← h.1, hv2', hv']
  · simp only [Except.ok.injEq, Prod.mk.injEq] at h
    rw [← h.1]; rfl

@[grind →] theorem completeTail_q (e : Env) (s s' : State) (md : Metadata) (o : Order) (sh : Shard) (ip : Order) (p : Addr) (cid : StrId)
    (h : completeTail e s md o sh ip p cid = .ok s') : qPart s' = qPart s := by
  unfold completeTail at h
  obtain ⟨v, hv, h⟩ := bind_ok h
  obtain ⟨v2, hv2, h⟩ := bind_ok h
  dsimp only at h
  split at h
  · exact (throw_bind_ne h).elim
  simp only [pure, Except.pure, Except.ok.injEq] at h
  rw [← h, setOrder_q, increaseReputation_q, shardPledge_q _ _ _ _ _ _ (softTx_ok hv2), extendMetaDuration_q _ _ _ _ hv]
  rfl

@[grind →] theorem saoCompleteBody_q (e : Env) (s s' : State) (p : Addr) (oid sz : Nat) (ok : Bool) (cid : StrId)
    (h : saoCompleteBody e s p oid sz ok cid = .ok s') : qPart s' = qPart s := by
  unfold saoCompleteBody at h
  obtain ⟨g, _, h⟩ := bind_ok h
  obtain ⟨o, sh, md⟩ := g
  dsimp only at h
  obtain ⟨v, hv, h⟩ := bind_ok h
  obtain ⟨s1, o1, sh1, ip⟩ := v
  dsimp only at h
  rw [completeTail_q _ _ _ _ _ _ _ _ _ h]
  split at hv
  · exact completeMigration_q _ _ _ _ _ _ hv
  · exact completeFresh_q _ _ _ _ _ _ hv

@[grind →] theorem saoComplete_q (e : Env) (s s' : State) (c p : Addr) (oid sz : Nat) (ok : Bool) (cid : StrId)
    (h : saoComplete e s c p oid sz ok cid = .ok s') : qPart s' = qPart s := by
  unfold saoComplete at h
  split at h
  · cases h
  · exact saoCompleteBody_q _ _ _ _ _ _ _ _ h

/-! ### Terminate -/
@[grind →] theorem terminateLoop_q (e : Env) (l : List Nat) (s s' : State) (set set' : List Nat)
    (h : saoTerminate.loop e l s set = .ok (s', set')) : qPart s' = qPart s := by
  induction l generalizing s set with
  | nil =>
    unfold saoTerminate.loop at h
    simp only [pure, Except.pure, Except.ok.injEq, Prod.mk.injEq] at h
    rw [← h.1]
  | cons oid t ih =>
    unfold saoTerminate.loop at h
    split at h
    · exact ih _ _ h
    · obtain ⟨v, hv, h⟩ := bind_ok h
      rw [ih _ _ h, modelTerminateOrder_q _ _ _ _ _ (softTx_ok hv)]

@[grind →] theorem saoTerminate_q (e : Env) (s s' : State) (c p : Addr) (ow : Did) (d : Bytes) (sv : Bool) (sd : Did)
    (h : saoTerminate e s c p ow d sv sd = .ok s') : qPart s' = qPart s := by
  unfold saoTerminate at h
  dsimp only at h
  split at h
  · exact (throw_bind_ne h).elim
  split at h
  · exact (throw_bind_ne h).elim
  split at h
  · rename_i md hmd
    split at h
    · exact (throw_bind_ne h).elim
    · obtain ⟨v, hv, h⟩ := bind_ok h
      obtain ⟨s1, set⟩ := v
      dsimp only at h
      have := softTx'_ok h
      rw [← this, deleteMeta_q, foldl_removeShard_q, terminateLoop_q _ _ _ _ _ _ hv]
  · cases h

/-! ### Renew -/
theorem send_or_self_q (s : State) (a b : Addr) (x : Int) :
    qPart (match s.send a b x with | .ok s' => s' | .error _ => s) = qPart s := by
  split
  · rename_i s' h; exact send_q _ _ _ _ _ h
  · rfl

theorem sendLit_or_self_q (s : State) (a b : Addr) (x : Int) :
    qPart (match s.sendLit a b x with | .ok s' => s' | .error _ => s) = qPart s := by
  split
  · rename_i s' h; exact sendLit_q _ _ _ _ _ h
  · rfl

@[grind →] theorem renewShard_q (e : Env) (s s' : State) (sh : Shard) (oid dur : Nat) (up : Dec) (x : Int × Nat)
    (h : renewShard e s sh oid dur up = .ok (s', x)) : qPart s' = qPart s := by
  unfold renewShard at h
  obtain ⟨np, _, h⟩ := bind_ok h
  obtain ⟨v, hv, h⟩ := bind_ok h
  obtain ⟨s1, sh1, chg⟩ := v
  dsimp only at h
  simp only [pure, Except.pure, Except.ok.injEq, Prod.mk.injEq] at h
  rw [← h.1, setShard_q]
  split at hv
  · dsimp only at hv
    split at hv
    · rename_i pl hpl
      simp only [pure, Except.pure, Except.ok.injEq, Prod.mk.injEq] at hv
      rw [← hv.1]
      -- the state the pledge record was read from: after the (possibly failed) transfer and the debt entry
      have key : ∀ (sx : State), sx.pledges = s.pledges ∧ sx.pool = s.pool → sx.getPledge sh.sp = some pl →
          qPart (sx.setPledge { pl with totalShardPledged := pl.totalShardPledged + (np - sh.pledge) }) = qPart s := by
        intro sx hpp hg
        exact (setPledge_q sx sh.sp pl _ hg (by exact rfl) (by exact rfl) (by exact rfl)).trans (q_of_pp hpp)
      apply key _ _ hpl
      split
      · split
        · rename_i s2 hs2; exact send_pp _ _ _ _ _ hs2
        · exact ⟨rfl, rfl⟩
      · split
        · rename_i s2 hs2; have := sendLit_pp _ _ _ _ _ hs2; exact this
        · exact ⟨rfl, rfl⟩
    · cases hv
  · simp only [pure, Except.pure, Except.ok.injEq, Prod.mk.injEq] at hv
    rw [← hv.1]

@[grind →] theorem renewLoop_q (e : Env) (dur : Nat) (newO : Order) (l : List Shard) (s s' : State) (chg : Int) (mx : Nat) (x : Int × Nat)
    (h : renewBody.loop e dur newO l s chg mx = .ok (s', x)) : qPart s' = qPart s := by
  induction l generalizing s chg mx with
  | nil =>
    unfold renewBody.loop at h
    simp only [pure, Except.pure, Except.ok.injEq, Prod.mk.injEq] at h
    rw [← h.1]
  | cons sh t ih =>
    unfold renewBody.loop at h
    split at h
    · exact ih _ _ _ h
    · obtain ⟨v, hv, h⟩ := bind_ok h
      obtain ⟨s1, c, ex⟩ := v
      dsimp only at h
      rw [ih _ _ _ h, renewShard_q _ _ _ _ _ _ _ _ hv]

@[grind →] theorem renewBody_q (e : Env) (s s' : State) (pool : Pool) (c p : Addr) (dur : Nat) (to : Int) (md : Metadata) (o : Order)
    (shs : List Shard) (x : Pool × Bool) (h : renewBody e s pool c p dur to md o shs = .ok (s', x)) : qPart s' = qPart s := by
  unfold renewBody at h
  obtain ⟨amount, _, h⟩ := bind_ok h
  dsimp only at h
  split at h
  · -- the charge failed: this data id is skipped, the state is what renewOrder returned
    simp only [pure, Except.pure, Except.ok.injEq, Prod.mk.injEq] at h
    rw [← h.1, renewOrder_q]
  · obtain ⟨v, hv, h⟩ := bind_ok h
    obtain ⟨s1, c1, mx⟩ := v
    dsimp only at h
    obtain ⟨s2, hs2, h⟩ := bind_ok h
    obtain ⟨v3, hv3, h⟩ := bind_ok h
    obtain ⟨s3, er⟩ := v3
    simp only [pure, Except.pure, Except.ok.injEq, Prod.mk.injEq] at h
    rw [← h.1, updateMeta_q _ _ _ _ _ hv3, extendMetaDuration_q _ _ _ _ hs2, renewLoop_q _ _ _ _ _ _ _ _ _ hv, renewOrder_q]

@[grind →] theorem renewOne_q (e : Env) (s s' : State) (pool : Pool) (c p : Addr) (sd : Did) (dur : Nat) (to : Int) (d : Bytes)
    (x : Pool × Bool) (h : renewOne e s pool c p sd dur to d = .ok (s', x)) : qPart s' = qPart s := by
  unfold renewOne at h
  split at h
  · simp only [pure, Except.pure, Except.ok.injEq, Prod.mk.injEq] at h; rw [← h.1]
  · exact renewBody_q _ _ _ _ _ _ _ _ _ _ _ _ h

@[grind →] theorem saoRenewLoop_q (e : Env) (c p : Addr) (sd : Did) (dur : Nat) (to : Int) (l : List Bytes) (s s' : State) (pool : Pool)
    (oks oks' : List Bool) (h : saoRenew.loop e c p sd dur to l s pool oks = .ok (s', oks')) : qPart s' = qPart s := by
  induction l generalizing s pool oks with
  | nil =>
    unfold saoRenew.loop at h
    simp only [pure, Except.pure, Except.ok.injEq, Prod.mk.injEq] at h
    rw [← h.1]
  | cons d t ih =>
    unfold saoRenew.loop at h
    obtain ⟨v, hv, h⟩ := bind_ok h
    obtain ⟨s1, pool1, ok⟩ := v
    dsimp only at h
    rw [ih _ _ _ h, renewOne_q _ _ _ _ _ _ _ _ _ _ _ hv]

@[grind →] theorem saoRenew_q (e : Env) (s s' : State) (c p : Addr) (sv : Bool) (sd : Did) (dur : Nat) (to : Int) (data : List Bytes)
    (oks : List Bool) (h : saoRenew e s c p sv sd dur to data = .ok (s', oks)) : qPart s' = qPart s := by
  unfold saoRenew at h
  dsimp only at h
  split at h
  · exact (throw_bind_ne h).elim
  split at h
  · exact (throw_bind_ne h).elim
  split at h
  · exact (throw_bind_ne h).elim
  split at h
  · exact (throw_bind_ne h).elim
  split at h
  · exact saoRenewLoop_q _ _ _ _ _ _ _ _ _ _ _ _ h
  · cases h

/-! ### Migrate -/
@[grind →] theorem migrateOrderLoop_q (s0 : State) (p : Addr) (l : List Nat) (commits : List Bytes) (st s' : State)
    (h : migrateOrderLoop s0 p l commits st = .ok s') : qPart s' = qPart st := by
  induction l generalizing commits st with
  | nil =>
    unfold migrateOrderLoop at h
    simp only [pure, Except.pure, Except.ok.injEq] at h
    rw [← h]
  | cons oid t ih =>
    unfold migrateOrderLoop at h
    split at h
    · exact ih _ _ h
    · split at h
      · exact ih _ _ h
      · (try dsimp only at h)
        split at h
        · exact ih _ _ h
        · split at h
          · exact ih _ _ h
          · (try dsimp only at h)
            split at h
            · exact ih _ _ h
            · obtain ⟨v, hv, h⟩ := bind_ok h
              obtain ⟨st1, sps⟩ := v
              dsimp only at h
              split at h
              · rw [ih _ _ h, randomSP_q _ _ _ _ _ _ hv]
              · rw [ih _ _ h, setOrder_q, appendShard_q, randomSP_q _ _ _ _ _ _ hv]

@[grind →] theorem saoMigrateLoop_q (s0 : State) (p : Addr) (l : List Bytes) (st s' : State)
    (h : saoMigrate.loop s0 p l st = .ok s') : qPart s' = qPart st := by
  induction l generalizing st with
  | nil =>
    unfold saoMigrate.loop at h
    simp only [pure, Except.pure, Except.ok.injEq] at h
    rw [← h]
  | cons d t ih =>
    unfold saoMigrate.loop at h
    split at h
    · exact ih _ h
    · obtain ⟨v, hv, h⟩ := bind_ok h
      rw [ih _ h, migrateOrderLoop_q _ _ _ _ _ _ hv]

@[grind →] theorem saoMigrate_q (s s' : State) (c p : Addr) (data : List Bytes) (h : saoMigrate s c p data = .ok s') :
    qPart s' = qPart s := by
  unfold saoMigrate at h
  split at h
  · exact (throw_bind_ne h).elim
  · exact saoMigrateLoop_q _ _ _ _ _ h

/-! ### permission, timeout and expiry handlers -/
@[grind →] theorem saoPermission_q (s s' : State) (c p : Addr) (ow : Did) (d : Bytes) (ro rw : List Did) (sv : Bool)
    (h : saoPermission s c p ow d ro rw sv = .ok s') : qPart s' = qPart s := by
  unfold saoPermission at h
  dsimp only at h
  split at h
  · exact (throw_bind_ne h).elim
  split at h
  · exact (throw_bind_ne h).elim
  split at h
  · exact (throw_bind_ne h).elim
  split at h
  · exact (throw_bind_ne h).elim
  have := softTx'_ok h
  rw [← this, updatePermission_q]

@[grind =] theorem timeoutSettle_q (s : State) (o : Order) (v : TimeoutView) : qPart (timeoutSettle s o v) = qPart s := by
  unfold timeoutSettle
  dsimp only
  split
  · rw [setOrder_q, foldl_removeShard_q]
  · rw [foldl_removeShard_q]

@[grind →] theorem timeoutGiveUp_q (e : Env) (s s' : State) (o : Order) (v : TimeoutView) (oid : Nat)
    (h : timeoutGiveUp e s o v oid = .ok s') : qPart s' = qPart s := by
  unfold timeoutGiveUp at h
  split at h
  · obtain ⟨x, hx, h⟩ := bind_ok h
    obtain ⟨s1, er⟩ := x
    simp only [pure, Except.pure, Except.ok.injEq] at h
    rw [← h, cancelOrder_q _ _ _ _ _ hx, foldl_removeShard_q]
  · dsimp only at h
    split at h
    · cases h
    · split at h
      · split at h
        · cases h
        · simp only [pure, Except.pure, Except.ok.injEq] at h
          rw [← h, setOrder_q]
          split
          · split
            · rename_i s2 hs2; rw [send_q _ _ _ _ _ hs2, foldl_removeShard_q]
            · rw [foldl_removeShard_q]
          · rw [foldl_removeShard_q]
      · simp only [pure, Except.pure, Except.ok.injEq] at h
        rw [← h, setOrder_q, foldl_removeShard_q]

@[grind →] theorem timeoutReassign_q (s s' : State) (o : Order) (v : TimeoutView) (sps : List Node)
    (h : timeoutReassign s o v sps = .ok s') : qPart s' = qPart s := by
  unfold timeoutReassign at h
  split at h
  · cases h
  · dsimp only at h
    simp only [pure, Except.pure, Except.ok.injEq] at h
    rw [← h, setTimeoutOrderBlock_q, setOrder_q]
    have gen : ∀ (l : List (Node × Shard)) (acc : Order × State),
        qPart (l.foldl (fun (acc : Order × State) (x : Node × Shard) =>
          let s := acc.2.setShard { x.2 with status := ShardTimeout }
          let (nsh, s) := newShardTask s acc.1 x.1.creator
          ({ acc.1 with shards := acc.1.shards ++ [nsh.id] }, s)) acc).2 = qPart acc.2 := by
      intro l
      induction l with
      | nil => intro acc; rfl
      | cons a t ih => intro acc; simp only [List.foldl_cons]; rw [ih]; rfl
    exact gen _ (o, s)

@[grind →] theorem handleTimeoutOrder_q (e : Env) (s s' : State) (oid : Nat) (h : handleTimeoutOrder e s oid = .ok s') :
    qPart s' = qPart s := by
  unfold handleTimeoutOrder at h
  split at h
  · simp only [pure, Except.pure, Except.ok.injEq] at h; rw [← h]
  · split at h
    · split at h
      · rename_i s1 x hc
        simp only [pure, Except.pure, Except.ok.injEq] at h
        rw [← h]; exact cancelOrder_q _ _ _ _ _ hc
      · cases h
    · dsimp only at h
      split at h
      · simp only [pure, Except.pure, Except.ok.injEq] at h; rw [← h, timeoutSettle_q]
      · split at h
        · cases h
        · rename_i s1 sps hsel
          have hs1 : qPart s1 = qPart s := by
            split at hsel
            · simp only [pure, Except.pure, Except.ok.injEq, Prod.mk.injEq] at hsel; rw [← hsel.1]
            · exact randomSP_q _ _ _ _ _ _ hsel
          split at h
          · split at h
            · rw [timeoutGiveUp_q _ _ _ _ _ _ h, hs1]
            · simp only [pure, Except.pure, Except.ok.injEq] at h; rw [← h, setTimeoutOrderBlock_q, hs1]
          · rw [timeoutReassign_q _ _ _ _ _ h, hs1]

@[grind →] theorem handleExpiredShard_q (e : Env) (s s' : State) (id : Nat) (h : handleExpiredShard e s id = .ok s') :
    qPart s' = qPart s := by
  unfold handleExpiredShard at h
  split at h
  · rename_i sh hsh
    split at h
    · rename_i o ho
      dsimp only at h
      obtain ⟨v, hv, h⟩ := bind_ok h
      have hv' : qPart v = qPart s := by
        split at hv
        · obtain ⟨x, hx, hv⟩ := bind_ok hv
          obtain ⟨s1, er⟩ := x
          simp only [pure, Except.pure, Except.ok.injEq] at hv
          rw [← hv, removeShard_q, shardRelease_q _ _ _ _ _ _ hx, workerRelease_q]
        · simp only [pure, Except.pure, Except.ok.injEq] at hv
          rw [← hv, workerAppend_q, setShard_q, setExpiredShardBlock_q, workerRelease_q]
      split at h
      · split at h
        · simp only [pure, Except.pure, Except.ok.injEq] at h; rw [← h, removeOrder_q, hv']
        · simp only [pure, Except.pure, Except.ok.injEq] at h; rw [← h, hv']
      · simp only [pure, Except.pure, Except.ok.injEq] at h; rw [← h, setOrder_q, hv']
    · simp only [pure, Except.pure, Except.ok.injEq] at h; rw [← h]
  · simp only [pure, Except.pure, Except.ok.injEq] at h; rw [← h]

/-! ### end-blockers -/
theorem foldlM_q {α : Type} (f : State → α → TxM State) (hf : ∀ s a s', f s a = .ok s' → qPart s' = qPart s)
    (l : List α) (s s' : State) (h : l.foldlM f s = .ok s') : qPart s' = qPart s := by
  induction l generalizing s with
  | nil => simp only [List.foldlM, pure, Except.pure, Except.ok.injEq] at h; rw [← h]
  | cons a t ih =>
    simp only [List.foldlM] at h
    obtain ⟨v, hv, h⟩ := bind_ok h
    rw [ih _ h, hf _ _ _ hv]

@[grind =] theorem nodeEndBlock_q (s : State) : qPart (nodeEndBlock s) = qPart s := rfl

@[grind =] theorem modelEndBlock_q (s : State) : qPart (modelEndBlock s) = qPart s := by
  unfold modelEndBlock
  dsimp only
  split
  · rfl
  · show qPart (List.foldl _ s _) = qPart s
    apply foldl_q
    intro s a
    repeat' split
    all_goals (first | rfl | exact deleteMeta_q _ _)

@[grind →] theorem saoEndBlock_q (e : Env) (s s' : State) (h : saoEndBlock e s = .ok s') : qPart s' = qPart s := by
  unfold saoEndBlock at h
  dsimp only at h
  obtain ⟨v, hv, h⟩ := bind_ok h
  have hv' : qPart v = qPart s := by
    split at hv
    · obtain ⟨w, hw, hv⟩ := bind_ok hv
      simp only [pure, Except.pure, Except.ok.injEq] at hv
      rw [← hv]
      have := foldlM_q _ (fun s a s' h => handleTimeoutOrder_q e s s' a h) _ _ _ hw
      rw [← this]; rfl
    · simp only [pure, Except.pure, Except.ok.injEq] at hv; rw [← hv]
  split at h
  · obtain ⟨w, hw, h⟩ := bind_ok h
    simp only [pure, Except.pure, Except.ok.injEq] at h
    rw [← h]
    have := foldlM_q _ (fun s a s' h => handleExpiredShard_q e s s' a h) _ _ _ hw
    rw [← hv', ← this]; rfl
  · simp only [pure, Except.pure, Except.ok.injEq] at h; rw [← h, hv']

@[grind →] theorem endBlock_q (e : Env) (s s' : State) (h : endBlock e s = .ok s') : qPart s' = qPart s := by
  unfold endBlock at h
  obtain ⟨v, hv, h⟩ := bind_ok h
  simp only [pure, Except.pure, Except.ok.injEq] at h
  rw [← h, modelEndBlock_q, nodeEndBlock_q, saoEndBlock_q _ _ _ hv]

/-! ### Store -/
@[grind →] theorem storePlace_q (e : Env) (s s' : State) (m : StoreMsg) (o : Order) (pa : Option Addr) (ip : Bool) (a b : Bytes)
    (h : storePlace e s m o pa ip a b = .ok s') : qPart s' = qPart s := by
  unfold storePlace at h
  (try dsimp only at h)
  obtain ⟨v, hv, h⟩ := bind_ok h
  obtain ⟨s1, sps⟩ := v
  (try dsimp only at h)
  obtain ⟨amount, _, h⟩ := bind_ok h
  obtain ⟨payer, _, h⟩ := bind_ok h
  split at h
  · exact (throw_bind_ne h).elim
  obtain ⟨s2, hs2, h⟩ := bind_ok h
  (try dsimp only at h)
  have hs1 : qPart s1 = qPart s := by
    split at hv
    · exact getSps_q _ _ _ _ _ hv
    · simp only [pure, Except.pure, Except.ok.injEq, Prod.mk.injEq] at hv; rw [← hv.1]
  rw [storeAttach_q _ _ _ _ _ _ h]
  split
  · rw [setTimeoutOrderBlock_q, newOrder_q, sendLit_q _ _ _ _ _ hs2, hs1]
  · rw [newOrder_q, sendLit_q _ _ _ _ _ hs2, hs1]

@[grind →] theorem saoStore_q (e : Env) (s s' : State) (m : StoreMsg) (h : saoStore e s m = .ok s') : qPart s' = qPart s := by
  unfold saoStore at h
  obtain ⟨g, _, h⟩ := bind_ok h
  exact storePlace_q _ _ _ _ _ _ _ _ _ h

/-- the outcome of a state transformer leaves the capacity totals alone (nothing is claimed about a failure) -/
def okQ (s : State) (r : TxM State) : Prop :=
  match r with
  | .ok s' => qPart s' = qPart s
  | .error _ => True

theorem okQ_elim {s s' : State} {r : TxM State} (h : okQ s r) (hr : r = .ok s') : qPart s' = qPart s := by
  subst hr; exact h

@[simp] theorem setFault_q (s : State) (f : Fault) : qPart (s.setFault f) = qPart s := rfl
@[simp] theorem removeFault_q (s : State) (f : Fault) : qPart (s.removeFault f) = qPart s := rfl
@[simp] theorem fishAdd_q (s : State) (k : Nat × Nat) (v : Dec) : qPart (fishAdd s k v) = qPart s := by
  unfold fishAdd; split <;> rfl
@[simp] theorem faultBySpShard_q (s : State) (p : Addr) (sh : Nat) : qPart (s.faultBySpShard p sh).1 = qPart s := by
  unfold State.faultBySpShard
  repeat' split
  all_goals rfl

theorem reportStep_q (c p : Addr) (s : State) (x : FaultIn × StrId) : qPart (reportStep c p s x) = qPart s := by
  unfold reportStep
  dsimp only
  repeat' split
  all_goals (first | rfl | simp)

@[grind →] theorem saoReportFaults_q (s s' : State) (c p : Addr) (fs : List FaultIn) (ids : List StrId)
    (h : saoReportFaults s c p fs ids = .ok s') : qPart s' = qPart s := by
  unfold saoReportFaults at h
  split at h
  · cases h
  · split at h
    · cases h
    · simp only [pure, Except.pure, Except.ok.injEq] at h
      rw [← h]
      exact foldl_q _ (reportStep_q c p) _ _

theorem okQ_of_eq {s s1 : State} {r : TxM State} (h : qPart s1 = qPart s) (hr : okQ s1 r) : okQ s r := by
  unfold okQ at *
  split
  · rename_i s' _; simp only at hr; rw [hr, h]
  · trivial

theorem fishAdd_pp (s : State) (k : Nat × Nat) (v : Dec) : (fishAdd s k v).pledges = s.pledges ∧ (fishAdd s k v).pool = s.pool := by
  unfold fishAdd; split <;> exact ⟨rfl, rfl⟩

theorem foldl_pp {α : Type} (f : State → α → State) (hf : ∀ s a, (f s a).pledges = s.pledges ∧ (f s a).pool = s.pool) (l : List α) (s : State) :
    (l.foldl f s).pledges = s.pledges ∧ (l.foldl f s).pool = s.pool := by
  induction l generalizing s with
  | nil => exact ⟨rfl, rfl⟩
  | cons a t ih => simp only [List.foldl_cons]; exact pp_trans (hf s a) (ih _)

theorem recoverSettle_okQ (pool : Pool) (ik : Nat) (s : State) (o : Order) (org fm : Fault) (pl : Pledge) (c : Addr)
    (hg : s.getPledge c = some pl) : okQ s (recoverSettle pool ik s o org fm pl) := by
  unfold recoverSettle
  dsimp only
  split
  · simp [okQ, throw, throwThe, MonadExceptOf.throw]
  · split
    · simp [okQ, throw, throwThe, MonadExceptOf.throw]
    · simp only [okQ, pure, Except.pure]
      rw [removeFault_q]
      -- the state the record is written to: fishing ledger entries only
      have key : ∀ (sx : State) (p' : Pledge), sx.pledges = s.pledges ∧ sx.pool = s.pool → p'.creator = pl.creator →
          p'.totalStorage = pl.totalStorage → p'.totalStoragePledged = pl.totalStoragePledged →
          qPart (sx.setPledge p') = qPart s := by
        intro sx p' hpp h0 h1 h2
        exact (setPledge_q_of s sx c pl p' hg hpp.1 h0 h1 h2).trans (q_of_pp hpp)
      apply key
      · refine pp_trans ?_ (foldl_pp _ (fun s c => fishAdd_pp s _ _) _ _)
        refine pp_trans ?_ (fishAdd_pp _ _ _)
        split <;> exact ⟨rfl, rfl⟩
      all_goals (repeat' split)
      all_goals rfl

theorem recoverStep_okQ (c p : Addr) (pool : Pool) (ik : Nat) (s : State) (f : FaultIn) :
    okQ s (recoverStep c p pool ik s f) := by
  have hb := faultBySpShard_q s f.provider f.shardId
  unfold recoverStep
  split
  · simp [okQ, pure, Except.pure]
  split
  · simp [okQ, pure, Except.pure]
  split
  · simp [okQ, pure, Except.pure]
  split
  · simp [okQ, pure, Except.pure]
  split
  · simp [okQ, pure, Except.pure]
  -- from here on the state is the one `faultBySpShard` returned
  generalize hq : s.faultBySpShard f.provider f.shardId = q at hb ⊢
  obtain ⟨s1, org?⟩ := q
  (try dsimp only at hb ⊢)
  split
  · simp only [okQ, pure, Except.pure]; exact hb
  split
  · simp only [okQ, pure, Except.pure]; exact hb
  (try dsimp only)
  split
  · simp only [okQ, pure, Except.pure]; exact hb
  · split
    · split
      · rename_i pledge hp
        exact okQ_of_eq hb (recoverSettle_okQ _ _ _ _ _ _ _ _ hp)
      · simp only [okQ, pure, Except.pure]; rw [setFault_q]; exact hb
    · simp only [okQ, pure, Except.pure]; rw [setFault_q]; exact hb

@[grind →] theorem saoRecoverFaults_q (s s' : State) (c p : Addr) (fs : List FaultIn) (ik : Nat)
    (h : saoRecoverFaults s c p fs ik = .ok s') : qPart s' = qPart s := by
  unfold saoRecoverFaults at h
  dsimp only at h
  split at h
  · rename_i node hn
    -- the role check is a guard: whichever branch, the state it hands on is `s`
    have key : ∀ (pool : Pool), fs.foldlM (recoverStep c p pool ik) s = .ok s' → qPart s' = qPart s := by
      intro pool hf
      exact foldlM_q _ (fun s a s' h => okQ_elim (recoverStep_okQ c p pool ik s a) h) _ _ _ hf
    split at h
    · split at h
      · exact (throw_bind_ne h).elim
      · split at h
        · exact key _ h
        · cases h
    · split at h
      · exact (throw_bind_ne h).elim
      · split at h
        · exact key _ h
        · cases h
  · cases h

end SaoVerif
