import SaoVerif.Proofs.Os
import SaoVerif.Properties.C16
/-! Stores kept sorted by id: `upsertBy` on a sorted list replaces the only record with that id or inserts in place. -/
namespace SaoVerif

theorem upsertBy_mem_ne {α : Type} (key : α → Nat) (l : List α) (x y : α) (hu : (l.map key).Pairwise (· < ·)) (h : y ∈ upsertBy key l x) :
    y = x ∨ (y ∈ l ∧ key y ≠ key x) := by
  induction l with
  | nil => simp [upsertBy] at h; exact Or.inl h
  | cons z t ih =>
    simp only [List.map_cons, List.pairwise_cons] at hu
    unfold upsertBy at h
    split at h
    · rename_i hz
      rcases List.mem_cons.mp h with h | h
      · exact Or.inl h
      · refine Or.inr ⟨List.mem_cons_of_mem _ h, ?_⟩
        have := hu.1 (key y) (List.mem_map_of_mem h)
        omega
    · rename_i hz
      split at h
      · rename_i hlt
        rcases List.mem_cons.mp h with h | h
        · exact Or.inl h
        · rcases List.mem_cons.mp h with h | h
          · exact Or.inr ⟨by rw [h]; exact List.mem_cons_self, by rw [h]; exact hz⟩
          · refine Or.inr ⟨List.mem_cons_of_mem _ h, ?_⟩
            have := hu.1 (key y) (List.mem_map_of_mem h)
            omega
      · rcases List.mem_cons.mp h with h | h
        · exact Or.inr ⟨by rw [h]; exact List.mem_cons_self, by rw [h]; exact hz⟩
        · rcases ih hu.2 h with h | h
          · exact Or.inl h
          · exact Or.inr ⟨List.mem_cons_of_mem _ h.1, h.2⟩

theorem upsertBy_sorted {α : Type} (key : α → Nat) (l : List α) (x : α) (hu : (l.map key).Pairwise (· < ·)) :
    ((upsertBy key l x).map key).Pairwise (· < ·) := by
  induction l with
  | nil => simp [upsertBy]
  | cons z t ih =>
    simp only [List.map_cons, List.pairwise_cons] at hu
    unfold upsertBy
    split
    · rename_i hz
      simp only [List.map_cons, List.pairwise_cons]
      exact ⟨fun a ha => by rw [← hz]; exact hu.1 a ha, hu.2⟩
    · split
      · rename_i hlt
        simp only [List.map_cons, List.pairwise_cons]
        refine ⟨?_, hu.1, hu.2⟩
        intro a ha
        rcases List.mem_cons.mp ha with h | h
        · rw [h]; exact hlt
        · have := hu.1 a h; omega
      · rename_i hz hlt
        simp only [List.map_cons, List.pairwise_cons]
        refine ⟨?_, ih hu.2⟩
        intro a ha
        rcases List.mem_map.mp ha with ⟨y, hy, rfl⟩
        rcases upsertBy_mem key t x y hy with h | h
        · rw [h]; omega
        · exact hu.1 _ (List.mem_map_of_mem h)

/-- in a store sorted by id, the record `find?` returns for an id is the only one with that id -/
theorem sorted_find_unique (l : List Order) (o : Order) (hu : (l.map (·.id)).Pairwise (· < ·)) (ho : o ∈ l) :
    l.find? (·.id = o.id) = some o := by
  induction l with
  | nil => cases ho
  | cons z t ih =>
    simp only [List.map_cons, List.pairwise_cons] at hu
    simp only [List.find?_cons]
    rcases List.mem_cons.mp ho with h | h
    · simp [h]
    · have := hu.1 o.id (List.mem_map_of_mem h)
      have hz : ¬ z.id = o.id := by omega
      simp only [hz, decide_false]
      exact ih hu.2 h

theorem filter_sorted {α : Type} (key : α → Nat) (l : List α) (p : α → Bool) (hu : (l.map key).Pairwise (· < ·)) :
    ((l.filter p).map key).Pairwise (· < ·) :=
  List.Pairwise.sublist (List.Sublist.map _ List.filter_sublist) hu

end SaoVerif
