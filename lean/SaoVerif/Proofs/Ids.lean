import SaoVerif.Proofs.SortedStore
/-!
# Identifiers stay below the counters

`Bnd s`: every stored order has an id below the order counter, every stored shard an id below the shard counter.
`Ext s s'`: `Bnd s'`, and neither counter went down from `s` to `s'`. For every function of the model that writes an
order or a shard — the 34 functions `Proofs/Os.lean` leaves out — `Bnd s` and a successful result give `Ext s s'`. The proofs
follow the code: an order that is written was read from the store before (so its id is below the counter), or has just
been appended (so its id *is* the old counter). `Properties/C16Ids.lean` lifts this to operations and histories.
-/
namespace SaoVerif

def cntO (p : List Order × Option Nat × List Shard × Nat) : Nat :=
  match p.2.1 with
  | none => 1
  | some 0 => 1
  | some n => n

def BndP (p : List Order × Option Nat × List Shard × Nat) : Prop :=
  ((∀ x ∈ p.1, x.id < cntO p) ∧ (∀ y ∈ p.2.2.1, y.id < p.2.2.2)) ∧
  ((p.1.map (·.id)).Pairwise (· < ·) ∧ (p.2.2.1.map (·.id)).Pairwise (· < ·))

/-- every stored identifier is below its counter, and both stores are sorted by id (so no id occurs twice) -/
def Bnd (s : State) : Prop := BndP (osPart s)

theorem getOrderCount_os (s : State) : s.getOrderCount = cntO (osPart s) := by
  unfold State.getOrderCount cntO osPart
  cases s.orderCount with
  | none => rfl
  | some n => cases n <;> rfl

theorem Bnd_iff' (s : State) : Bnd s ↔ ((∀ x ∈ s.orders, x.id < s.getOrderCount) ∧ (∀ y ∈ s.shards, y.id < s.shardCount)) ∧
    ((s.orders.map (·.id)).Pairwise (· < ·) ∧ (s.shards.map (·.id)).Pairwise (· < ·)) := by
  unfold Bnd BndP
  rw [getOrderCount_os]
  rfl

theorem Bnd_ids {s : State} (hb : Bnd s) : (∀ x ∈ s.orders, x.id < s.getOrderCount) ∧ (∀ y ∈ s.shards, y.id < s.shardCount) :=
  ((Bnd_iff' s).mp hb).1

theorem Bnd_sorted {s : State} (hb : Bnd s) : (s.orders.map (·.id)).Pairwise (· < ·) ∧ (s.shards.map (·.id)).Pairwise (· < ·) :=
  ((Bnd_iff' s).mp hb).2

theorem Bnd_mk {s : State} (h1 : ∀ x ∈ s.orders, x.id < s.getOrderCount) (h2 : ∀ y ∈ s.shards, y.id < s.shardCount)
    (h3 : (s.orders.map (·.id)).Pairwise (· < ·)) (h4 : (s.shards.map (·.id)).Pairwise (· < ·)) : Bnd s :=
  (Bnd_iff' s).mpr ⟨⟨h1, h2⟩, h3, h4⟩

/-- `Bnd` holds afterwards and no counter went down -/
def Ext (s s' : State) : Prop := Bnd s' ∧ s.getOrderCount ≤ s'.getOrderCount ∧ s.shardCount ≤ s'.shardCount

theorem Ext.refl {s : State} (hb : Bnd s) : Ext s s := ⟨hb, Nat.le_refl _, Nat.le_refl _⟩

theorem Ext.trans {s s1 s2 : State} (h1 : Ext s s1) (h2 : Ext s1 s2) : Ext s s2 :=
  ⟨h2.1, Nat.le_trans h1.2.1 h2.2.1, Nat.le_trans h1.2.2 h2.2.2⟩

theorem os_ext {s s' : State} (h : osPart s' = osPart s) (hb : Bnd s) : Ext s s' := by
  refine ⟨?_, ?_, ?_⟩
  · unfold Bnd; rw [h]; exact hb
  · rw [getOrderCount_os, getOrderCount_os, h]; exact Nat.le_refl _
  · have : s'.shardCount = s.shardCount := by
      have := congrArg (fun p => p.2.2.2) h
      exact this
    rw [this]; exact Nat.le_refl _

theorem os_cntO {s s' : State} (h : osPart s' = osPart s) : s'.getOrderCount = s.getOrderCount := by
  rw [getOrderCount_os, getOrderCount_os, h]

theorem os_cntS {s s' : State} (h : osPart s' = osPart s) : s'.shardCount = s.shardCount :=
  congrArg (fun p => p.2.2.2) h

/-! ### reading -/
theorem getOrder_mem {s : State} {i : Nat} {o : Order} (h : s.getOrder i = some o) : o ∈ s.orders ∧ o.id = i := by
  unfold State.getOrder at h
  exact ⟨List.mem_of_find?_eq_some h, by simpa using List.find?_some h⟩

theorem getShard_mem {s : State} {i : Nat} {x : Shard} (h : s.getShard i = some x) : x ∈ s.shards ∧ x.id = i := by
  unfold State.getShard at h
  exact ⟨List.mem_of_find?_eq_some h, by simpa using List.find?_some h⟩

theorem getOrder_bnd {s : State} {i : Nat} {o : Order} (hb : Bnd s) (h : s.getOrder i = some o) : o.id < s.getOrderCount :=
  (Bnd_ids hb).1 o (getOrder_mem h).1

theorem getShard_bnd {s : State} {i : Nat} {x : Shard} (hb : Bnd s) (h : s.getShard i = some x) : x.id < s.shardCount :=
  (Bnd_ids hb).2 x (getShard_mem h).1

/-! ### writing -/
theorem setOrder_ext {s : State} {o : Order} (hb : Bnd s) (ho : o.id < s.getOrderCount) : Ext s (s.setOrder o) := by
  have hc : (s.setOrder o).getOrderCount = s.getOrderCount := rfl
  refine ⟨Bnd_mk ?_ (Bnd_ids hb).2 (upsertBy_sorted (fun (z : Order) => z.id) _ _ (Bnd_sorted hb).1) (Bnd_sorted hb).2, Nat.le_of_eq hc.symm, Nat.le_refl _⟩
  intro x hx
  rw [hc]
  rcases upsertBy_mem _ _ _ _ hx with h | h
  · rw [h]; exact ho
  · exact (Bnd_ids hb).1 x h

theorem removeOrder_ext {s : State} (i : Nat) (hb : Bnd s) : Ext s (s.removeOrder i) := by
  refine ⟨Bnd_mk ?_ (Bnd_ids hb).2 (filter_sorted (fun (z : Order) => z.id) _ _ (Bnd_sorted hb).1) (Bnd_sorted hb).2, Nat.le_refl _, Nat.le_refl _⟩
  intro x hx
  exact (Bnd_ids hb).1 x ((List.mem_filter.mp hx).1)

theorem setShard_ext {s : State} {x : Shard} (hb : Bnd s) (hx : x.id < s.shardCount) : Ext s (s.setShard x) := by
  refine ⟨Bnd_mk (Bnd_ids hb).1 ?_ (Bnd_sorted hb).1 (upsertBy_sorted (fun (z : Shard) => z.id) _ _ (Bnd_sorted hb).2), Nat.le_refl _, Nat.le_refl _⟩
  intro y hy
  rcases upsertBy_mem _ _ _ _ hy with h | h
  · rw [h]; exact hx
  · exact (Bnd_ids hb).2 y h

theorem removeShard_ext {s : State} (i : Nat) (hb : Bnd s) : Ext s (s.removeShard i) := by
  refine ⟨Bnd_mk (Bnd_ids hb).1 ?_ (Bnd_sorted hb).1 (filter_sorted (fun (z : Shard) => z.id) _ _ (Bnd_sorted hb).2), Nat.le_refl _, Nat.le_refl _⟩
  intro x hx
  exact (Bnd_ids hb).2 x ((List.mem_filter.mp hx).1)

theorem appendOrder_ext {s : State} (o : Order) (hb : Bnd s) :
    Ext s (s.appendOrder o).2 ∧ (s.appendOrder o).1 = s.getOrderCount ∧ (s.appendOrder o).2.getOrderCount = s.getOrderCount + 1 := by
  have h := C16_appendOrder_fresh s o (Bnd_ids hb).1
  have hc := getOrderCount_after_append s o
  refine ⟨⟨Bnd_mk h.2.2.1 (Bnd_ids hb).2 (upsertBy_sorted (fun (z : Order) => z.id) _ _ (Bnd_sorted hb).1) (Bnd_sorted hb).2, by omega, Nat.le_refl _⟩, rfl, hc⟩

theorem appendShard_ext {s : State} (x : Shard) (hb : Bnd s) :
    Ext s (s.appendShard x).2 ∧ (s.appendShard x).1 = s.shardCount ∧ (s.appendShard x).2.shardCount = s.shardCount + 1 := by
  have h := C16_appendShard_fresh s x (Bnd_ids hb).2
  refine ⟨⟨Bnd_mk (Bnd_ids hb).1 h.2.2.1 (Bnd_sorted hb).1 (upsertBy_sorted (fun (z : Shard) => z.id) _ _ (Bnd_sorted hb).2), Nat.le_refl _, Nat.le_succ _⟩, rfl, rfl⟩

/-! ### automation -/
attribute [grind →] send_os sendLit_os removeDataExpireBlock_os marketDeposit_os marketWithdraw_os nodeCreate_os nodeReset_os
  promoteIfDue_os demoteIfDue_os nodeAddVstorage_os nodeRemoveVstorage_os marketClaim_os shardRelease_os nodeClaimReward_os
  sendToDidBalances_os resetMetaDuration_os extendMetaDuration_os rollbackMeta_os updateMetaStatusAndCommit_os getSps_os
  randomSP_os storeAttach_os saoPermission_os saoReportFaults_os saoRecoverFaults_os
attribute [grind =] setMeta_os removeMeta_os setModel_os removeModel_os setNode_os setPledge_os setWorker_os setDebt_os
  removeDebt_os setBal_os setDataExpireBlock_os setTimeoutOrderBlock_os setExpiredShardBlock_os workerAppend_os
  workerRelease_os withdrawLoop_os marketMigrate_os repayPledgeDebt_os refundOrder_os deleteMeta_os newMeta_os
  updatePermission_os increaseReputation_os nodeEndBlock_os modelEndBlock_os

theorem Ext_def (s s' : State) : Ext s s' = (Bnd s' ∧ s.getOrderCount ≤ s'.getOrderCount ∧ s.shardCount ≤ s'.shardCount) := rfl

theorem os_ext' {s s' : State} (h : osPart s' = osPart s) : (Bnd s' ↔ Bnd s) ∧ s'.getOrderCount = s.getOrderCount ∧ s'.shardCount = s.shardCount :=
  ⟨by unfold Bnd; rw [h], os_cntO h, os_cntS h⟩

attribute [grind →] os_ext' getOrder_bnd getShard_bnd
attribute [grind =] Ext_def

@[grind =] theorem Bnd_def (s : State) : Bnd s = BndP (osPart s) := rfl
@[grind =] theorem shardCount_os (s : State) : s.shardCount = (osPart s).2.2.2 := rfl
attribute [grind =] getOrderCount_os

theorem setOrder_ext' {s : State} {o : Order} (hb : Bnd s) (ho : o.id < s.getOrderCount) :
    Bnd (s.setOrder o) ∧ (s.setOrder o).getOrderCount = s.getOrderCount ∧ (s.setOrder o).shardCount = s.shardCount :=
  ⟨(setOrder_ext hb ho).1, rfl, rfl⟩
theorem setShard_ext' {s : State} {x : Shard} (hb : Bnd s) (hx : x.id < s.shardCount) :
    Bnd (s.setShard x) ∧ (s.setShard x).getOrderCount = s.getOrderCount ∧ (s.setShard x).shardCount = s.shardCount :=
  ⟨(setShard_ext hb hx).1, rfl, rfl⟩
theorem removeOrder_ext' {s : State} (i : Nat) (hb : Bnd s) :
    Bnd (s.removeOrder i) ∧ (s.removeOrder i).getOrderCount = s.getOrderCount ∧ (s.removeOrder i).shardCount = s.shardCount :=
  ⟨(removeOrder_ext i hb).1, rfl, rfl⟩
theorem removeShard_ext' {s : State} (i : Nat) (hb : Bnd s) :
    Bnd (s.removeShard i) ∧ (s.removeShard i).getOrderCount = s.getOrderCount ∧ (s.removeShard i).shardCount = s.shardCount :=
  ⟨(removeShard_ext i hb).1, rfl, rfl⟩

/-- split every `if`/`match` of the hypothesis, drop the failing branches, and let `grind` chain the lemmas of the callees -/
macro "ids_auto" h:ident : tactic => `(tactic| (
  simp only [bind, Except.bind, pure, Except.pure, throw, throwThe, MonadExceptOf.throw] at $h:ident
  repeat' (split at $h:ident)
  all_goals (first | cases $h:ident | skip)
  all_goals (try simp only [Except.ok.injEq, Prod.mk.injEq] at $h:ident)
  all_goals (grind [setOrder_ext', setShard_ext', removeOrder_ext', removeShard_ext'])))

/-! ### order keeper -/
theorem newShardTask_ext (s : State) (o : Order) (sp : Addr) (hb : Bnd s) :
    Ext s (newShardTask s o sp).2 ∧ (newShardTask s o sp).1.id < (newShardTask s o sp).2.shardCount := by
  unfold newShardTask
  simp only
  refine ⟨(appendShard_ext _ hb).1, ?_⟩
  show s.shardCount < s.shardCount + 1
  omega

theorem generateShards_ext (s : State) (o : Order) (sps : List Addr) (hb : Bnd s) :
    Ext s (generateShards s o sps).2 ∧ (generateShards s o sps).1.id = o.id := by
  unfold generateShards
  have gen : ∀ (l : List Addr) (acc : Order × State), Bnd acc.2 →
      Ext acc.2 (l.foldl (fun (acc : Order × State) sp =>
        let (sh, s') := newShardTask acc.2 acc.1 sp
        ({ acc.1 with shards := acc.1.shards ++ [sh.id] }, s')) acc).2 ∧
      (l.foldl (fun (acc : Order × State) sp =>
        let (sh, s') := newShardTask acc.2 acc.1 sp
        ({ acc.1 with shards := acc.1.shards ++ [sh.id] }, s')) acc).1.id = acc.1.id := by
    intro l
    induction l with
    | nil => intro acc hb; exact ⟨Ext.refl hb, rfl⟩
    | cons a t ih =>
      intro acc hb
      simp only [List.foldl_cons]
      have h1 := newShardTask_ext acc.2 acc.1 a hb
      have h2 := ih ({ acc.1 with shards := acc.1.shards ++ [(newShardTask acc.2 acc.1 a).1.id] }, (newShardTask acc.2 acc.1 a).2) h1.1.1
      exact ⟨Ext.trans h1.1 h2.1, h2.2⟩
  have := gen sps (o, s) hb
  simp only at this ⊢
  refine ⟨this.1, ?_⟩
  split <;> exact this.2

theorem newOrder_ext (s : State) (o : Order) (sps : List Addr) (hb : Bnd s) :
    Ext s (newOrder s o sps).2 ∧ (newOrder s o sps).1.id < (newOrder s o sps).2.getOrderCount := by
  unfold newOrder
  simp only
  have h1 := appendOrder_ext (s := s) o hb
  have h2 := generateShards_ext (s.appendOrder o).2 { o with id := (s.appendOrder o).1 } sps h1.1.1
  have hid : ({ (generateShards (s.appendOrder o).2 { o with id := (s.appendOrder o).1 } sps).1 with
      createdAt := toU64 (generateShards (s.appendOrder o).2 { o with id := (s.appendOrder o).1 } sps).2.h } : Order).id
        < (generateShards (s.appendOrder o).2 { o with id := (s.appendOrder o).1 } sps).2.getOrderCount := by
    show (generateShards (s.appendOrder o).2 { o with id := (s.appendOrder o).1 } sps).1.id < _
    rw [h2.2]
    show (s.appendOrder o).1 < _
    have := h2.1.2.1
    omega
  have h3 := setOrder_ext h2.1.1 hid
  exact ⟨Ext.trans h1.1 (Ext.trans h2.1 h3), hid⟩

theorem renewOrder_ext (e : Env) (s : State) (o : Order) (hb : Bnd s) :
    Ext s (renewOrder e s o).1 ∧ ((renewOrder e s o).2.2 = none → (renewOrder e s o).2.1.id < (renewOrder e s o).1.getOrderCount) := by
  unfold renewOrder
  split
  · exact ⟨Ext.refl hb, by simp⟩
  · split
    · exact ⟨Ext.refl hb, by simp⟩
    · rename_i s1 hs
      have hos := sendLit_os _ _ _ _ _ hs
      have h0 := os_ext hos hb
      have h1 := appendOrder_ext (s := s1) o h0.1
      have hid : ({ o with id := (s1.appendOrder o).1 } : Order).id < (s1.appendOrder o).2.getOrderCount := by
        show (s1.appendOrder o).1 < _
        omega
      have h3 := setOrder_ext h1.1.1 hid
      exact ⟨Ext.trans h0 (Ext.trans h1.1 h3), fun _ => hid⟩

@[grind →] theorem orderTerminate_ext (e : Env) (s s' : State) (oid : Nat) (r : Int) (x : Option String) (hb : Bnd s)
    (h : orderTerminate e s oid r = .ok (s', x)) : Ext s s' := by
  unfold orderTerminate at h
  ids_auto h

@[grind →] theorem modelTerminateOrder_ext (e : Env) (s s' : State) (o : Order) (x : Option String) (hb : Bnd s)
    (h : modelTerminateOrder e s o = .ok (s', x)) : Ext s s' := by
  unfold modelTerminateOrder at h
  ids_auto h

@[grind →] theorem cancelOrder_ext (e : Env) (s s' : State) (oid : Nat) (x : Option String) (hb : Bnd s)
    (h : cancelOrder e s oid = .ok (s', x)) : Ext s s' := by
  unfold cancelOrder at h
  ids_auto h

theorem foldl_removeShard_ext (ids : List Nat) (s : State) (hb : Bnd s) : Ext s (ids.foldl (fun s id => s.removeShard id) s) := by
  induction ids generalizing s with
  | nil => exact Ext.refl hb
  | cons a t ih => simp only [List.foldl_cons]; exact Ext.trans (removeShard_ext a hb) (ih _ (removeShard_ext a hb).1)

@[grind →] theorem shardPledge_ext (e : Env) (s s' : State) (sh : Shard) (up : Dec) (x : Option String) (hb : Bnd s) (hsh : sh.id < s.shardCount)
    (h : shardPledge e s sh up = .ok (s', x)) : Ext s s' := by
  unfold shardPledge at h
  ids_auto h

@[grind →] theorem updateMetaLoop_ext (e : Env) (lc : Bytes) (fuel : Nat) (s s' : State) (orders shardSet : List Nat)
    (x : List Nat × List Nat × Option String) (hb : Bnd s)
    (h : updateMeta.loop e lc fuel s orders shardSet = .ok (s', x)) : Ext s s' := by
  induction fuel generalizing s orders shardSet with
  | zero =>
    unfold updateMeta.loop at h
    simp only [pure, Except.pure, Except.ok.injEq, Prod.mk.injEq] at h
    rw [← h.1]; exact Ext.refl hb
  | succ n ih =>
    unfold updateMeta.loop at h
    split at h
    · simp only [pure, Except.pure, Except.ok.injEq, Prod.mk.injEq] at h; rw [← h.1]; exact Ext.refl hb
    · split at h
      · simp only [pure, Except.pure, Except.ok.injEq, Prod.mk.injEq] at h; rw [← h.1]; exact Ext.refl hb
      · split at h
        · simp only [pure, Except.pure, Except.ok.injEq, Prod.mk.injEq] at h; rw [← h.1]; exact Ext.refl hb
        · simp only [bind, Except.bind, pure, Except.pure] at h
          split at h
          · cases h
          · rename_i y hy
            obtain ⟨s1, er⟩ := y
            simp only at h
            have h1 := modelTerminateOrder_ext _ _ _ _ _ hb hy
            split at h
            · simp only [Except.ok.injEq, Prod.mk.injEq] at h; rw [← h.1]; exact h1
            · exact Ext.trans h1 (ih _ _ _ h1.1 h)

theorem foldl_removeShard_ext' (ids : List Nat) (s : State) :
    (Bnd s → Bnd (ids.foldl (fun s id => s.removeShard id) s)) ∧
    (ids.foldl (fun s id => s.removeShard id) s).getOrderCount = s.getOrderCount ∧
    (ids.foldl (fun s id => s.removeShard id) s).shardCount = s.shardCount := by
  induction ids generalizing s with
  | nil => exact ⟨id, rfl, rfl⟩
  | cons a t ih =>
    simp only [List.foldl_cons]
    have := ih (s.removeShard a)
    exact ⟨fun hb => this.1 (removeShard_ext a hb).1, this.2.1, this.2.2⟩

grind_pattern foldl_removeShard_ext' => ids.foldl (fun s id => s.removeShard id) s

@[grind →] theorem updateMeta_ext (e : Env) (s s' : State) (o : Order) (x : Option String) (hb : Bnd s)
    (h : updateMeta e s o = .ok (s', x)) : Ext s s' := by
  unfold updateMeta at h
  ids_auto h

/-! ### sao handlers -/
theorem setOrder_after_os {s s1 : State} {o : Order} (hos : osPart s1 = osPart s) (hb : Bnd s) (ho : o.id < s.getOrderCount) :
    Ext s (s1.setOrder o) := by
  have e1 := os_ext hos hb
  exact Ext.trans e1 (setOrder_ext e1.1 (by have := e1.2.1; omega))

theorem getOrderShardBySP_bnd {s : State} {o : Order} {sp : Addr} {sh : Shard} (hb : Bnd s)
    (h : getOrderShardBySP s o sp = some sh) : sh.id < s.shardCount := by
  unfold getOrderShardBySP at h
  obtain ⟨id, _, hid⟩ := List.exists_of_findSome?_eq_some h
  split at hid
  · rename_i x hx
    split at hid
    · simp only [Option.some.injEq] at hid; rw [← hid]; exact getShard_bnd hb hx
    · cases hid
  · cases hid

attribute [grind →] getOrderShardBySP_bnd

theorem getD_default_bnd {s : State} (hb : Bnd s) (i : Nat) : ((s.getOrder i).getD default).id < s.getOrderCount := by
  cases h : s.getOrder i with
  | none => exact getOrderCount_pos' s
  | some o => exact getOrder_bnd hb h

@[grind →] theorem saoReadyBody_ext (s s' : State) (o : Order) (hb : Bnd s) (ho : o.id < s.getOrderCount)
    (h : saoReadyBody s o = .ok s') : Ext s s' := by
  unfold saoReadyBody at h
  simp only [bind, Except.bind, pure, Except.pure, throw, throwThe, MonadExceptOf.throw] at h
  split at h
  · cases h
  · split at h
    · cases h
    · rename_i y hy
      obtain ⟨s1, sps⟩ := y
      simp only [Except.ok.injEq] at h
      have h1 := os_ext (getSps_os _ _ _ _ _ hy) hb
      have h2 := generateShards_ext s1 o (sps.map (·.creator)) h1.1
      have hid : (generateShards s1 o (sps.map (·.creator))).1.id < (generateShards s1 o (sps.map (·.creator))).2.getOrderCount := by
        rw [h2.2]; have := h1.2.1; have := h2.1.2.1; omega
      have h3 := setOrder_ext h2.1.1 hid
      rw [← h]
      exact Ext.trans h1 (Ext.trans h2.1 (Ext.trans h3 (os_ext (setTimeoutOrderBlock_os _ _ _) h3.1)))

@[grind →] theorem saoReady_ext (s s' : State) (c p : Addr) (oid : Nat) (hb : Bnd s) (h : saoReady s c p oid = .ok s') : Ext s s' := by
  unfold saoReady at h
  ids_auto h

@[grind →] theorem storePlace_ext (e : Env) (s s' : State) (m : StoreMsg) (o : Order) (pa : Option Addr) (ip : Bool) (a b : Bytes)
    (hb : Bnd s) (h : storePlace e s m o pa ip a b = .ok s') : Ext s s' := by
  unfold storePlace at h
  (try dsimp only at h)
  obtain ⟨v, hv, h⟩ := bind_ok h
  obtain ⟨s1, sps⟩ := v
  (try dsimp only at h)
  obtain ⟨amount, _, h⟩ := bind_ok h
  obtain ⟨payer, _, h⟩ := bind_ok h
  split at h
  · exact (throw_bind_ne h).elim
  obtain ⟨s2, hs2, h⟩ := bind_ok h
  (try dsimp only at h)
  have hs1 : osPart s1 = osPart s := by
    split at hv
    · exact getSps_os _ _ _ _ _ hv
    · simp only [pure, Except.pure, Except.ok.injEq, Prod.mk.injEq] at hv; rw [← hv.1]
  have e1 := os_ext hs1 hb
  have e2 := os_ext (sendLit_os _ _ _ _ _ hs2) e1.1
  have e3 := newOrder_ext s2 { o with unitPrice := unitPriceDec, amount := amount } (sps.map (·.creator)) e2.1
  have e5 := storeAttach_os _ _ _ _ _ _ h
  split at e5
  · rw [setTimeoutOrderBlock_os] at e5
    exact Ext.trans e1 (Ext.trans e2 (Ext.trans e3.1 (os_ext e5 e3.1.1)))
  · exact Ext.trans e1 (Ext.trans e2 (Ext.trans e3.1 (os_ext e5 e3.1.1)))

@[grind →] theorem saoStore_ext (e : Env) (s s' : State) (m : StoreMsg) (hb : Bnd s) (h : saoStore e s m = .ok s') : Ext s s' := by
  unfold saoStore at h
  obtain ⟨g, _, h⟩ := bind_ok h
  exact storePlace_ext _ _ _ _ _ _ _ _ _ hb h

theorem completeGuards_bnd {s : State} {p : Addr} {oid sz : Nat} {ok : Bool} {o : Order} {sh : Shard} {md : Metadata} (hb : Bnd s)
    (h : completeGuards s p oid sz ok = .ok (o, sh, md)) : o.id < s.getOrderCount ∧ sh.id < s.shardCount := by
  unfold completeGuards at h
  simp only [bind, Except.bind, pure, Except.pure, throw, throwThe, MonadExceptOf.throw] at h
  repeat' (split at h)
  all_goals (first | cases h | skip)
  all_goals (try simp only [Except.ok.injEq, Prod.mk.injEq] at h)
  all_goals grind

theorem completeFresh_ext (e : Env) (s s' : State) (o : Order) (sh : Shard) (o' : Order) (sh' : Shard) (ip : Order) (hb : Bnd s)
    (h : completeFresh e s o sh = .ok (s', o', sh', ip)) : Ext s s' ∧ o'.id = o.id ∧ sh'.id = sh.id ∧ ip.id = o.id := by
  unfold completeFresh softTx at h
  simp only [bind, Except.bind, pure, Except.pure, throw, throwThe, MonadExceptOf.throw] at h
  split at h
  · split at h
    · cases h
    · rename_i v hv
      have hv' : Ext s v := by
        split at hv
        · cases hv
        · rename_i w hw
          split at hv
          · cases hv
          · simp only [Except.ok.injEq] at hv
            rw [← hv]
            have h0 := os_ext (workerAppend_os s o { sh with createdAt := toU64 s.h, duration := o.duration }) hb
            exact Ext.trans h0 (updateMeta_ext _ _ _ _ _ h0.1 hw)
      split at h
      · cases h
      · rename_i v2 hv2
        have hv2' : osPart v2 = osPart v := by
          split at hv2
          · cases hv2
          · rename_i w hw
            split at hv2
            · cases hv2
            · simp only [Except.ok.injEq] at hv2
              rw [← hv2]; exact marketDeposit_os _ _ _ _ _ hw
        simp only [Except.ok.injEq, Prod.mk.injEq] at h
        obtain ⟨h1, h2, h3, h4⟩ := h
        rw [← h1, ← h2, ← h3, ← h4]
        exact ⟨Ext.trans hv' (os_ext hv2' hv'.1), rfl, rfl, rfl⟩
  · simp only [Except.ok.injEq, Prod.mk.injEq] at h
    obtain ⟨h1, h2, h3, h4⟩ := h
    rw [← h1, ← h2, ← h3, ← h4]
    exact ⟨os_ext (workerAppend_os _ _ _) hb, rfl, rfl, rfl⟩

@[grind →] theorem completeTail_ext (e : Env) (s s' : State) (md : Metadata) (o : Order) (sh : Shard) (ip : Order) (p : Addr) (cid : StrId)
    (hb : Bnd s) (ho : o.id < s.getOrderCount) (hsh : sh.id < s.shardCount)
    (h : completeTail e s md o sh ip p cid = .ok s') : Ext s s' := by
  unfold completeTail at h
  obtain ⟨v, hv, h⟩ := bind_ok h
  obtain ⟨v2, hv2, h⟩ := bind_ok h
  dsimp only at h
  split at h
  · exact (throw_bind_ne h).elim
  simp only [pure, Except.pure, Except.ok.injEq] at h
  have o1 : osPart v = osPart s := by
    have := extendMetaDuration_os _ _ _ _ hv
    rw [setExpiredShardBlock_os] at this
    exact this
  have e1 := os_ext o1 hb
  have hsh' : ({ sh with status := ShardCompleted, cid := cid } : Shard).id < v.shardCount := by
    show sh.id < _
    have := e1.2.2; omega
  have e2 := shardPledge_ext _ _ _ _ _ _ e1.1 hsh' (softTx_ok hv2)
  have ho' : o.id < v2.getOrderCount := by
    have := e1.2.1; have := e2.2.1; omega
  rw [← h]
  exact Ext.trans e1 (Ext.trans e2 (setOrder_after_os (increaseReputation_os _ _ _ _) e2.1 ho'))

theorem foldl_ext {α : Type} (g : State → α → State) (c : Nat)
    (hg : ∀ s a, Bnd s → c ≤ s.getOrderCount → Ext s (g s a)) (l : List α) (s : State) (hb : Bnd s) (hc : c ≤ s.getOrderCount) :
    Ext s (l.foldl g s) := by
  induction l generalizing s with
  | nil => exact Ext.refl hb
  | cons a t ih =>
    simp only [List.foldl_cons]
    have h1 := hg s a hb hc
    exact Ext.trans h1 (ih _ h1.1 (Nat.le_trans hc h1.2.1))

theorem migTail (A : State) (hA : Bnd A) (o' ip0 : Order) (c : Prop) [Decidable c] (f : Order → Order) (hf : ∀ x, (f x).id = x.id)
    (l : List Nat) (ho' : o'.id < A.getOrderCount) (hip : ip0.id < A.getOrderCount) :
    Ext A (l.foldl (fun (s' : State) id => match A.getOrder id with
        | some o => s'.setOrder (f o)
        | none => s') (if c then ((A.setOrder o').setOrder (f ip0), f ip0) else (A.setOrder o', o')).1) ∧
    (if c then ((A.setOrder o').setOrder (f ip0), f ip0) else (A.setOrder o', o')).2.id <
      (l.foldl (fun (s' : State) id => match A.getOrder id with
        | some o => s'.setOrder (f o)
        | none => s') (if c then ((A.setOrder o').setOrder (f ip0), f ip0) else (A.setOrder o', o')).1).getOrderCount := by
  have e1 := setOrder_ext hA ho'
  have e2 : Ext A (if c then ((A.setOrder o').setOrder (f ip0), f ip0) else (A.setOrder o', o')).1 := by
    split
    · exact Ext.trans e1 (setOrder_ext e1.1 (by rw [hf]; exact hip))
    · exact e1
  have hid : (if c then ((A.setOrder o').setOrder (f ip0), f ip0) else (A.setOrder o', o')).2.id < A.getOrderCount := by
    split
    · show (f ip0).id < _; rw [hf]; exact hip
    · exact ho'
  have e3 : Ext (if c then ((A.setOrder o').setOrder (f ip0), f ip0) else (A.setOrder o', o')).1
      (l.foldl (fun (s' : State) id => match A.getOrder id with
        | some o => s'.setOrder (f o)
        | none => s') (if c then ((A.setOrder o').setOrder (f ip0), f ip0) else (A.setOrder o', o')).1) := by
    apply foldl_ext _ A.getOrderCount _ _ _ e2.1 e2.2.1
    intro s2 a hb2 hc2
    split
    · rename_i x hx
      exact setOrder_ext hb2 (by have := getOrder_bnd hA hx; rw [hf]; omega)
    · exact Ext.refl hb2
  exact ⟨Ext.trans e2 e3, by have := e2.2.1; have := e3.2.1; omega⟩

theorem migTail' (A : State) (hA : Bnd A) (o' ip0 : Order) (c : Prop) [Decidable c] (f : Order → Order) (hf : ∀ x, (f x).id = x.id)
    (l : List Nat) (ho' : o'.id < A.getOrderCount) (hip : ip0.id < A.getOrderCount) (s' : State) (ip : Order)
    (h1 : l.foldl (fun (s' : State) id => match A.getOrder id with
        | some o => s'.setOrder (f o)
        | none => s') (if c then ((A.setOrder o').setOrder (f ip0), f ip0) else (A.setOrder o', o')).1 = s')
    (h4 : (if c then ((A.setOrder o').setOrder (f ip0), f ip0) else (A.setOrder o', o')).2 = ip) :
    Ext A s' ∧ ip.id < s'.getOrderCount := by
  rw [← h1, ← h4]
  exact migTail A hA o' ip0 c f hf l ho' hip

theorem completeMigration_ext (e : Env) (s s' : State) (o : Order) (sh : Shard) (o' : Order) (sh' : Shard) (ip : Order) (hb : Bnd s)
    (ho : o.id < s.getOrderCount)
    (h : completeMigration e s o sh = .ok (s', o', sh', ip)) :
    Ext s s' ∧ o'.id = o.id ∧ sh'.id = sh.id ∧ ip.id < s'.getOrderCount := by
  unfold completeMigration softTx softTx' at h
  simp only [bind, Except.bind, pure, Except.pure, throw, throwThe, MonadExceptOf.throw] at h
  split at h
  · cases h
  · split at h
    · cases h
    · rename_i v hv
      have hv' : osPart v = osPart s := by
        split at hv
        · cases hv
        · rename_i w hw
          split at hv
          · cases hv
          · simp only [Except.ok.injEq] at hv
            rw [← hv]
            exact shardRelease_os _ _ _ _ _ _ hw
      have e1 := os_ext hv' hb
      split at h
      · split at h
        · cases h
        · rename_i _ oldShard _ _ v2 hv2
          have hv2' : osPart v2 = osPart v := by
            split at hv2
            · cases hv2
            · simp only [Except.ok.injEq] at hv2
              rw [← hv2]
              exact marketMigrate_os _ _ _ _
          have e2 := os_ext hv2' e1.1
          have e3 := removeShard_ext oldShard.id e2.1
          have e13 := Ext.trans e1 (Ext.trans e2 e3)
          have hc3 : o.id < (v2.removeShard oldShard.id).getOrderCount := by have := e13.2.1; omega
          simp only [Except.ok.injEq, Prod.mk.injEq] at h
          obtain ⟨h1, h2, h3, h4⟩ := h
          have hip : (if oldShard.orderId ≠ o.id then (v.getOrder oldShard.orderId).getD default else o).id
              < (v2.removeShard oldShard.id).getOrderCount := by
            split
            · have := getD_default_bnd e1.1 oldShard.orderId
              have := e2.2.1; have := e3.2.1; omega
            · exact hc3
          rw [← h2, ← h3]
          have key := migTail' (v2.removeShard oldShard.id) e3.1 _ _ _ _ (by intro x; rfl) _ (by exact hc3) (by exact hip) _ _ h1 h4
          exact ⟨Ext.trans e13 key.1, rfl, rfl, key.2⟩
      · cases h

@[grind →] theorem saoCompleteBody_ext (e : Env) (s s' : State) (p : Addr) (oid sz : Nat) (ok : Bool) (cid : StrId) (hb : Bnd s)
    (h : saoCompleteBody e s p oid sz ok cid = .ok s') : Ext s s' := by
  unfold saoCompleteBody at h
  obtain ⟨g, hg, h⟩ := bind_ok h
  obtain ⟨o, sh, md⟩ := g
  have hg' := completeGuards_bnd hb hg
  dsimp only at h
  obtain ⟨v, hv, h⟩ := bind_ok h
  obtain ⟨s1, o1, sh1, ip⟩ := v
  dsimp only at h
  have key : Ext s s1 ∧ o1.id = o.id ∧ sh1.id = sh.id := by
    split at hv
    · have := completeMigration_ext _ _ _ _ _ _ _ _ hb hg'.1 hv
      exact ⟨this.1, this.2.1, this.2.2.1⟩
    · have := completeFresh_ext _ _ _ _ _ _ _ _ hb hv
      exact ⟨this.1, this.2.1, this.2.2.1⟩
  have e2 := completeTail_ext _ _ _ _ _ _ _ _ _ key.1.1 (by rw [key.2.1]; have := key.1.2.1; omega)
    (by rw [key.2.2]; have := key.1.2.2; omega) h
  exact Ext.trans key.1 e2

@[grind →] theorem saoComplete_ext (e : Env) (s s' : State) (c p : Addr) (oid sz : Nat) (ok : Bool) (cid : StrId) (hb : Bnd s)
    (h : saoComplete e s c p oid sz ok cid = .ok s') : Ext s s' := by
  unfold saoComplete at h
  split at h
  · cases h
  · exact saoCompleteBody_ext _ _ _ _ _ _ _ _ hb h

@[grind →] theorem cancelLoop_ext (e : Env) (l : List Nat) (s s' : State) (hb : Bnd s) (h : saoCancelBody.loop e l s = .ok s') :
    Ext s s' := by
  induction l generalizing s with
  | nil => unfold saoCancelBody.loop at h; simp only [pure, Except.pure, Except.ok.injEq] at h; rw [← h]; exact Ext.refl hb
  | cons id t ih =>
    unfold saoCancelBody.loop softTx at h
    simp only [bind, Except.bind, pure, Except.pure, throw, throwThe, MonadExceptOf.throw] at h
    split at h
    · split at h
      · cases h
      · rename_i v hv
        have hv' : osPart v = osPart s := by
          repeat' (split at hv)
          all_goals (first | cases hv | skip)
          all_goals (try simp only [Except.ok.injEq] at hv)
          all_goals grind
        have e1 := os_ext hv' hb
        have e2 := removeShard_ext id e1.1
        exact Ext.trans e1 (Ext.trans e2 (ih _ e2.1 h))
    · cases h

@[grind →] theorem saoCancelBody_ext (e : Env) (s s' : State) (o : Order) (oid : Nat) (hb : Bnd s) (h : saoCancelBody e s o oid = .ok s') :
    Ext s s' := by
  unfold saoCancelBody softTx at h
  ids_auto h

@[grind →] theorem saoCancel_ext (e : Env) (s s' : State) (c p : Addr) (oid : Nat) (hb : Bnd s) (h : saoCancel e s c p oid = .ok s') :
    Ext s s' := by
  unfold saoCancel at h
  ids_auto h

@[grind →] theorem terminateLoop_ext (e : Env) (l : List Nat) (s s' : State) (set set' : List Nat) (hb : Bnd s)
    (h : saoTerminate.loop e l s set = .ok (s', set')) : Ext s s' := by
  induction l generalizing s set with
  | nil =>
    unfold saoTerminate.loop at h
    simp only [pure, Except.pure, Except.ok.injEq, Prod.mk.injEq] at h
    rw [← h.1]; exact Ext.refl hb
  | cons oid t ih =>
    unfold saoTerminate.loop at h
    split at h
    · exact ih _ _ hb h
    · obtain ⟨v, hv, h⟩ := bind_ok h
      have e1 := modelTerminateOrder_ext _ _ _ _ _ hb (softTx_ok hv)
      exact Ext.trans e1 (ih _ _ e1.1 h)

@[grind →] theorem saoTerminate_ext (e : Env) (s s' : State) (c p : Addr) (ow : Did) (d : Bytes) (sv : Bool) (sd : Did) (hb : Bnd s)
    (h : saoTerminate e s c p ow d sv sd = .ok s') : Ext s s' := by
  unfold saoTerminate at h
  dsimp only at h
  split at h
  · exact (throw_bind_ne h).elim
  split at h
  · exact (throw_bind_ne h).elim
  split at h
  · rename_i md hmd
    split at h
    · exact (throw_bind_ne h).elim
    · obtain ⟨v, hv, h⟩ := bind_ok h
      obtain ⟨s1, set⟩ := v
      dsimp only at h
      have := softTx'_ok h
      rw [← this]
      have e1 := terminateLoop_ext _ _ _ _ _ _ hb hv
      have e2 := foldl_removeShard_ext set s1 e1.1
      exact Ext.trans e1 (Ext.trans e2 (os_ext (deleteMeta_os _ _) e2.1))
  · cases h

/-! ### Renew -/
theorem renewShard_ext (e : Env) (s s' : State) (sh : Shard) (oid dur : Nat) (up : Dec) (x : Int × Nat) (hb : Bnd s)
    (hsh : sh.id < s.shardCount) (h : renewShard e s sh oid dur up = .ok (s', x)) : Ext s s' := by
  unfold renewShard at h
  obtain ⟨np, _, h⟩ := bind_ok h
  obtain ⟨v, hv, h⟩ := bind_ok h
  obtain ⟨s1, sh1, chg⟩ := v
  dsimp only at h
  simp only [pure, Except.pure, Except.ok.injEq, Prod.mk.injEq] at h
  rw [← h.1]
  have key : osPart s1 = osPart s ∧ sh1.id = sh.id := by
    split at hv
    · dsimp only at hv
      split at hv
      · rename_i pl hpl
        simp only [pure, Except.pure, Except.ok.injEq, Prod.mk.injEq] at hv
        rw [← hv.1, ← hv.2.1, setPledge_os]
        refine ⟨?_, rfl⟩
        split
        · exact send_or_self_os _ _ _ _
        · rw [setDebt_os]; exact sendLit_or_self_os _ _ _ _
      · cases hv
    · simp only [pure, Except.pure, Except.ok.injEq, Prod.mk.injEq] at hv
      rw [← hv.1, ← hv.2.1]; exact ⟨rfl, rfl⟩
  have e1 := os_ext key.1 hb
  exact Ext.trans e1 (setShard_ext e1.1 (by show sh1.id < _; rw [key.2]; have := e1.2.2; omega))

theorem renewLoop_ext (e : Env) (dur : Nat) (newO : Order) (l : List Shard) (s s' : State) (chg : Int) (mx : Nat) (x : Int × Nat)
    (c : Nat) (hb : Bnd s) (hl : ∀ sh ∈ l, sh.id < c) (hc : c ≤ s.shardCount)
    (h : renewBody.loop e dur newO l s chg mx = .ok (s', x)) : Ext s s' := by
  induction l generalizing s chg mx with
  | nil =>
    unfold renewBody.loop at h
    simp only [pure, Except.pure, Except.ok.injEq, Prod.mk.injEq] at h
    rw [← h.1]; exact Ext.refl hb
  | cons sh t ih =>
    unfold renewBody.loop at h
    split at h
    · exact ih _ _ _ hb (fun y hy => hl y (List.mem_cons_of_mem _ hy)) hc h
    · obtain ⟨v, hv, h⟩ := bind_ok h
      obtain ⟨s1, c1, ex⟩ := v
      dsimp only at h
      have e1 := renewShard_ext _ _ _ _ _ _ _ _ hb (by have := hl sh List.mem_cons_self; omega) hv
      exact Ext.trans e1 (ih _ _ _ e1.1 (fun y hy => hl y (List.mem_cons_of_mem _ hy)) (by have := e1.2.2; omega) h)

theorem obind_some {α β : Type} {x : Option α} {f : α → Option β} {b : β} (h : (x >>= f) = some b) : ∃ a, x = some a ∧ f a = some b := by
  cases x with
  | none => cases h
  | some a => exact ⟨a, rfl, h⟩

theorem mapM_option_mem {α β : Type} (f : α → Option β) (l : List α) (l' : List β) (h : l.mapM f = some l') :
    ∀ y ∈ l', ∃ x ∈ l, f x = some y := by
  induction l generalizing l' with
  | nil => simp at h; subst h; intro y hy; cases hy
  | cons a t ih =>
    rw [List.mapM_cons] at h
    obtain ⟨b, hb, h⟩ := obind_some h
    obtain ⟨bs, hbs, h⟩ := obind_some h
    simp only [pure, Option.some.injEq] at h
    subst h
    intro y hy
    rcases List.mem_cons.mp hy with h | h
    · exact ⟨a, List.mem_cons_self, by rw [h]; exact hb⟩
    · obtain ⟨x, hx, hfx⟩ := ih bs hbs y h
      exact ⟨x, List.mem_cons_of_mem _ hx, hfx⟩

theorem renewGuards_bnd {s : State} {sd : Did} {d : Bytes} {md : Metadata} {o : Order} {shs : List Shard} (hb : Bnd s)
    (h : renewGuards s sd d = some (md, o, shs)) : ∀ sh ∈ shs, sh.id < s.shardCount := by
  unfold renewGuards at h
  obtain ⟨md', _, h⟩ := obind_some h
  (try dsimp only at h)
  split at h
  · cases h
  split at h
  · cases h
  (try dsimp only at h)
  obtain ⟨o', _, h⟩ := obind_some h
  (try dsimp only at h)
  obtain ⟨l, hl, h⟩ := obind_some h
  (try dsimp only at h)
  split at h
  · cases h
  split at h
  · cases h
  simp only [pure, Option.some.injEq, Prod.mk.injEq] at h
  intro sh hsh
  rw [← h.2.2] at hsh
  obtain ⟨id, _, hid⟩ := mapM_option_mem _ _ _ hl sh hsh
  split at hid
  · cases hid
  · rename_i x hx
    split at hid
    · cases hid
    · simp only [Option.some.injEq] at hid
      rw [← hid]; exact getShard_bnd hb hx

theorem renewBody_ext (e : Env) (s s' : State) (pool : Pool) (c p : Addr) (dur : Nat) (to : Int) (md : Metadata) (o : Order)
    (shs : List Shard) (x : Pool × Bool) (hb : Bnd s) (hl : ∀ sh ∈ shs, sh.id < s.shardCount)
    (h : renewBody e s pool c p dur to md o shs = .ok (s', x)) : Ext s s' := by
  unfold renewBody at h
  obtain ⟨amount, _, h⟩ := bind_ok h
  dsimp only at h
  split at h
  · simp only [pure, Except.pure, Except.ok.injEq, Prod.mk.injEq] at h
    rw [← h.1]; exact (renewOrder_ext _ _ _ hb).1
  · obtain ⟨v, hv, h⟩ := bind_ok h
    obtain ⟨s1, c1, mx⟩ := v
    dsimp only at h
    obtain ⟨s2, hs2, h⟩ := bind_ok h
    obtain ⟨v3, hv3, h⟩ := bind_ok h
    obtain ⟨s3, er⟩ := v3
    simp only [pure, Except.pure, Except.ok.injEq, Prod.mk.injEq] at h
    rw [← h.1]
    have e0 := fun o => renewOrder_ext e s o hb
    have e1 := renewLoop_ext _ _ _ _ _ _ _ _ _ s.shardCount (e0 _).1.1 hl (e0 _).1.2.2 hv
    have e2 := os_ext (extendMetaDuration_os _ _ _ _ hs2) e1.1
    have e3 := updateMeta_ext _ _ _ _ _ e2.1 hv3
    exact Ext.trans (e0 _).1 (Ext.trans e1 (Ext.trans e2 e3))

theorem renewOne_ext (e : Env) (s s' : State) (pool : Pool) (c p : Addr) (sd : Did) (dur : Nat) (to : Int) (d : Bytes)
    (x : Pool × Bool) (hb : Bnd s) (h : renewOne e s pool c p sd dur to d = .ok (s', x)) : Ext s s' := by
  unfold renewOne at h
  split at h
  · simp only [pure, Except.pure, Except.ok.injEq, Prod.mk.injEq] at h; rw [← h.1]; exact Ext.refl hb
  · rename_i md o shs hg
    exact renewBody_ext _ _ _ _ _ _ _ _ _ _ _ _ hb (renewGuards_bnd hb hg) h

theorem saoRenewLoop_ext (e : Env) (c p : Addr) (sd : Did) (dur : Nat) (to : Int) (l : List Bytes) (s s' : State) (pool : Pool)
    (oks oks' : List Bool) (hb : Bnd s) (h : saoRenew.loop e c p sd dur to l s pool oks = .ok (s', oks')) : Ext s s' := by
  induction l generalizing s pool oks with
  | nil =>
    unfold saoRenew.loop at h
    simp only [pure, Except.pure, Except.ok.injEq, Prod.mk.injEq] at h
    rw [← h.1]; exact Ext.refl hb
  | cons d t ih =>
    unfold saoRenew.loop at h
    obtain ⟨v, hv, h⟩ := bind_ok h
    obtain ⟨s1, pool1, ok⟩ := v
    dsimp only at h
    have e1 := renewOne_ext _ _ _ _ _ _ _ _ _ _ _ hb hv
    exact Ext.trans e1 (ih _ _ _ e1.1 h)

@[grind →] theorem saoRenew_ext (e : Env) (s s' : State) (c p : Addr) (sv : Bool) (sd : Did) (dur : Nat) (to : Int) (data : List Bytes)
    (oks : List Bool) (hb : Bnd s) (h : saoRenew e s c p sv sd dur to data = .ok (s', oks)) : Ext s s' := by
  unfold saoRenew at h
  dsimp only at h
  split at h
  · exact (throw_bind_ne h).elim
  split at h
  · exact (throw_bind_ne h).elim
  split at h
  · exact (throw_bind_ne h).elim
  split at h
  · exact (throw_bind_ne h).elim
  split at h
  · exact saoRenewLoop_ext _ _ _ _ _ _ _ _ _ _ _ _ hb h
  · cases h

/-! ### Migrate -/
theorem appendShard_setOrder_ext {s : State} (x : Shard) (o : Order) (f : Nat → Order) (hf : ∀ n, (f n).id = o.id) (hb : Bnd s)
    (ho : o.id < s.getOrderCount) : Ext s ((s.appendShard x).2.setOrder (f (s.appendShard x).1)) := by
  have e2 := appendShard_ext (s := s) x hb
  exact Ext.trans e2.1 (setOrder_ext e2.1.1 (by rw [hf]; have := e2.1.2.1; omega))

theorem migrateOrderLoop_ext (s0 : State) (p : Addr) (l : List Nat) (commits : List Bytes) (st s' : State) (hb : Bnd st)
    (h : migrateOrderLoop s0 p l commits st = .ok s') : Ext st s' := by
  induction l generalizing commits st with
  | nil =>
    unfold migrateOrderLoop at h
    simp only [pure, Except.pure, Except.ok.injEq] at h
    rw [← h]; exact Ext.refl hb
  | cons oid t ih =>
    unfold migrateOrderLoop at h
    split at h
    · exact ih _ _ hb h
    · rename_i oldOrder hoo
      split at h
      · exact ih _ _ hb h
      · (try dsimp only at h)
        split at h
        · exact ih _ _ hb h
        · split at h
          · exact ih _ _ hb h
          · (try dsimp only at h)
            split at h
            · exact ih _ _ hb h
            · obtain ⟨v, hv, h⟩ := bind_ok h
              obtain ⟨st1, sps⟩ := v
              dsimp only at h
              have e1 := os_ext (randomSP_os _ _ _ _ _ _ hv) hb
              split at h
              · exact Ext.trans e1 (ih _ _ e1.1 h)
              · have hoid : oldOrder.id < st1.getOrderCount := by
                  have := getOrder_bnd hb hoo
                  have := e1.2.1; omega
                have key : ∀ (x : Shard) (f : Nat → Order), (∀ n, (f n).id = oldOrder.id) →
                    Ext st1 ((st1.appendShard x).2.setOrder (f (st1.appendShard x).1)) :=
                  fun x f hf => appendShard_setOrder_ext x oldOrder f hf e1.1 hoid
                exact Ext.trans e1 (Ext.trans (key _ (fun n => { oldOrder with shards := oldOrder.shards ++ [n] }) (fun _ => rfl))
                  (ih _ _ (key _ (fun n => { oldOrder with shards := oldOrder.shards ++ [n] }) (fun _ => rfl)).1 h))

theorem saoMigrateLoop_ext (s0 : State) (p : Addr) (l : List Bytes) (st s' : State) (hb : Bnd st)
    (h : saoMigrate.loop s0 p l st = .ok s') : Ext st s' := by
  induction l generalizing st with
  | nil =>
    unfold saoMigrate.loop at h
    simp only [pure, Except.pure, Except.ok.injEq] at h
    rw [← h]; exact Ext.refl hb
  | cons d t ih =>
    unfold saoMigrate.loop at h
    split at h
    · exact ih _ hb h
    · obtain ⟨v, hv, h⟩ := bind_ok h
      have e1 := migrateOrderLoop_ext _ _ _ _ _ _ hb hv
      exact Ext.trans e1 (ih _ e1.1 h)

@[grind →] theorem saoMigrate_ext (s s' : State) (c p : Addr) (data : List Bytes) (hb : Bnd s) (h : saoMigrate s c p data = .ok s') :
    Ext s s' := by
  unfold saoMigrate at h
  split at h
  · exact (throw_bind_ne h).elim
  · exact saoMigrateLoop_ext _ _ _ _ _ hb h

/-! ### the timeout and expiry handlers, the end-blockers -/
theorem timeoutSettle_ext (s : State) (o : Order) (v : TimeoutView) (hb : Bnd s) (ho : o.id < s.getOrderCount) :
    Ext s (timeoutSettle s o v) := by
  unfold timeoutSettle
  dsimp only
  have e1 := foldl_removeShard_ext v.uncompleted s hb
  split
  · exact Ext.trans e1 (setOrder_ext e1.1 (by show o.id < _; have := e1.2.1; omega))
  · exact e1

theorem timeoutGiveUp_ext (e : Env) (s s' : State) (o : Order) (v : TimeoutView) (oid : Nat) (hb : Bnd s) (ho : o.id < s.getOrderCount)
    (h : timeoutGiveUp e s o v oid = .ok s') : Ext s s' := by
  unfold timeoutGiveUp at h
  split at h
  · obtain ⟨x, hx, h⟩ := bind_ok h
    obtain ⟨s1, er⟩ := x
    simp only [pure, Except.pure, Except.ok.injEq] at h
    rw [← h]
    have e1 := foldl_removeShard_ext o.shards s hb
    exact Ext.trans e1 (cancelOrder_ext _ _ _ _ _ e1.1 hx)
  · dsimp only at h
    have e1 := foldl_removeShard_ext v.uncompleted s hb
    split at h
    · cases h
    · split at h
      · split at h
        · cases h
        · simp only [pure, Except.pure, Except.ok.injEq] at h
          rw [← h]
          refine Ext.trans e1 (setOrder_after_os ?_ e1.1 (by show o.id < _; have := e1.2.1; omega))
          split
          · split
            · rename_i s2 hs2; exact send_os _ _ _ _ _ hs2
            · rfl
          · rfl
      · simp only [pure, Except.pure, Except.ok.injEq] at h
        rw [← h]
        exact Ext.trans e1 (setOrder_ext e1.1 (by show o.id < _; have := e1.2.1; omega))

theorem timeoutReassign_ext (s s' : State) (o : Order) (v : TimeoutView) (sps : List Node) (c : Nat) (hb : Bnd s)
    (ho : o.id < s.getOrderCount) (hv : ∀ sh ∈ v.timeoutShards, sh.id < c) (hc : c ≤ s.shardCount)
    (h : timeoutReassign s o v sps = .ok s') : Ext s s' := by
  unfold timeoutReassign at h
  split at h
  · cases h
  · dsimp only at h
    simp only [pure, Except.pure, Except.ok.injEq] at h
    rw [← h]
    have gen : ∀ (l : List (Node × Shard)) (acc : Order × State), Bnd acc.2 → (∀ x ∈ l, x.2.id < c) → c ≤ acc.2.shardCount →
        Ext acc.2 (l.foldl (fun (acc : Order × State) (x : Node × Shard) =>
          let s := acc.2.setShard { x.2 with status := ShardTimeout }
          let (nsh, s) := newShardTask s acc.1 x.1.creator
          ({ acc.1 with shards := acc.1.shards ++ [nsh.id] }, s)) acc).2 ∧
        (l.foldl (fun (acc : Order × State) (x : Node × Shard) =>
          let s := acc.2.setShard { x.2 with status := ShardTimeout }
          let (nsh, s) := newShardTask s acc.1 x.1.creator
          ({ acc.1 with shards := acc.1.shards ++ [nsh.id] }, s)) acc).1.id = acc.1.id := by
      intro l
      induction l with
      | nil => intro acc hb _ _; exact ⟨Ext.refl hb, rfl⟩
      | cons a t ih =>
        intro acc hb hl hc
        simp only [List.foldl_cons]
        have e1 := setShard_ext (x := { a.2 with status := ShardTimeout }) hb (by show a.2.id < _; have := hl a List.mem_cons_self; omega)
        have e2 := newShardTask_ext (acc.2.setShard { a.2 with status := ShardTimeout }) acc.1 a.1.creator e1.1
        have e12 := Ext.trans e1 e2.1
        have := ih ({ acc.1 with shards := acc.1.shards ++ [(newShardTask (acc.2.setShard { a.2 with status := ShardTimeout }) acc.1 a.1.creator).1.id] },
          (newShardTask (acc.2.setShard { a.2 with status := ShardTimeout }) acc.1 a.1.creator).2) e12.1
          (fun x hx => hl x (List.mem_cons_of_mem _ hx)) (Nat.le_trans hc e12.2.2)
        exact ⟨Ext.trans e12 this.1, this.2⟩
    have g := gen (sps.zip v.timeoutShards) (o, s) hb (fun x hx => hv x.2 (List.of_mem_zip hx).2) hc
    have e2 := setOrder_ext (o := _) g.1.1 (by rw [g.2]; exact Nat.lt_of_lt_of_le ho g.1.2.1)
    exact Ext.trans g.1 (Ext.trans e2 (os_ext (setTimeoutOrderBlock_os _ _ _) e2.1))

theorem timeoutView_bnd {s : State} (o : Order) (hb : Bnd s) : ∀ sh ∈ (timeoutView s o).timeoutShards, sh.id < s.shardCount := by
  intro sh hsh
  unfold timeoutView at hsh
  simp only [List.mem_map, List.mem_filter, List.mem_filterMap] at hsh
  obtain ⟨x, ⟨⟨id, _, hx⟩, _⟩, hx2⟩ := hsh
  cases hg : s.getShard id with
  | none => rw [hg] at hx; cases hx
  | some y =>
    rw [hg] at hx
    simp only [Option.map_some, Option.some.injEq] at hx
    rw [← hx2, ← hx]
    exact getShard_bnd hb hg

@[grind →] theorem handleTimeoutOrder_ext (e : Env) (s s' : State) (oid : Nat) (hb : Bnd s) (h : handleTimeoutOrder e s oid = .ok s') :
    Ext s s' := by
  unfold handleTimeoutOrder at h
  split at h
  · simp only [pure, Except.pure, Except.ok.injEq] at h; rw [← h]; exact Ext.refl hb
  · rename_i order hord
    have ho := getOrder_bnd hb hord
    split at h
    · split at h
      · rename_i s1 x hc
        simp only [pure, Except.pure, Except.ok.injEq] at h
        rw [← h]; exact cancelOrder_ext _ _ _ _ _ hb hc
      · cases h
    · dsimp only at h
      split at h
      · simp only [pure, Except.pure, Except.ok.injEq] at h; rw [← h]; exact timeoutSettle_ext _ _ _ hb ho
      · split at h
        · cases h
        · rename_i s1 sps hsel
          have hs1 : osPart s1 = osPart s := by
            split at hsel
            · simp only [pure, Except.pure, Except.ok.injEq, Prod.mk.injEq] at hsel; rw [← hsel.1]
            · exact randomSP_os _ _ _ _ _ _ hsel
          have e1 := os_ext hs1 hb
          have ho1 : order.id < s1.getOrderCount := by have := e1.2.1; omega
          split at h
          · split at h
            · exact Ext.trans e1 (timeoutGiveUp_ext _ _ _ _ _ _ e1.1 ho1 h)
            · simp only [pure, Except.pure, Except.ok.injEq] at h; rw [← h]
              exact Ext.trans e1 (os_ext (setTimeoutOrderBlock_os _ _ _) e1.1)
          · exact Ext.trans e1 (timeoutReassign_ext _ _ _ _ _ s.shardCount e1.1 ho1 (timeoutView_bnd order hb) e1.2.2 h)

theorem expShardStep (W : State) (hb : Bnd W) (x : Shard) (hx : x.id < W.shardCount) (i a : Nat) (o : Order) (y : Shard) :
    Ext W (workerAppend ((setExpiredShardBlock W i a).setShard x) o y) := by
  have e1 := os_ext (setExpiredShardBlock_os W i a) hb
  have e2 := setShard_ext (x := x) e1.1 (by have := e1.2.2; omega)
  exact Ext.trans e1 (Ext.trans e2 (os_ext (workerAppend_os _ _ _) e2.1))

@[grind →] theorem handleExpiredShard_ext (e : Env) (s s' : State) (id : Nat) (hb : Bnd s) (h : handleExpiredShard e s id = .ok s') :
    Ext s s' := by
  unfold handleExpiredShard at h
  split at h
  · rename_i sh hsh
    have hshb := getShard_bnd hb hsh
    split at h
    · rename_i o ho
      have hob := getOrder_bnd hb ho
      dsimp only at h
      obtain ⟨v, hv, h⟩ := bind_ok h
      have hv' : Ext s v := by
        have e0 := os_ext (workerRelease_os s o sh) hb
        split at hv
        · obtain ⟨x, hx, hv⟩ := bind_ok hv
          obtain ⟨s1, er⟩ := x
          simp only [pure, Except.pure, Except.ok.injEq] at hv
          rw [← hv]
          have e1 := os_ext (shardRelease_os _ _ _ _ _ _ hx) e0.1
          exact Ext.trans e0 (Ext.trans e1 (removeShard_ext _ e1.1))
        · simp only [pure, Except.pure, Except.ok.injEq] at hv
          rw [← hv]
          exact Ext.trans e0 (expShardStep _ e0.1 _ (by show sh.id < _; have := e0.2.2; omega) _ _ _ _)
      split at h
      · split at h
        · simp only [pure, Except.pure, Except.ok.injEq] at h; rw [← h]; exact Ext.trans hv' (removeOrder_ext _ hv'.1)
        · simp only [pure, Except.pure, Except.ok.injEq] at h; rw [← h]; exact hv'
      · simp only [pure, Except.pure, Except.ok.injEq] at h; rw [← h]
        exact Ext.trans hv' (setOrder_ext hv'.1 (by show o.id < _; have := hv'.2.1; omega))
    · simp only [pure, Except.pure, Except.ok.injEq] at h; rw [← h]; exact Ext.refl hb
  · simp only [pure, Except.pure, Except.ok.injEq] at h; rw [← h]; exact Ext.refl hb

theorem foldlM_ext {α : Type} (f : State → α → TxM State) (hf : ∀ s a s', Bnd s → f s a = .ok s' → Ext s s')
    (l : List α) (s s' : State) (hb : Bnd s) (h : l.foldlM f s = .ok s') : Ext s s' := by
  induction l generalizing s with
  | nil => simp only [List.foldlM, pure, Except.pure, Except.ok.injEq] at h; rw [← h]; exact Ext.refl hb
  | cons a t ih =>
    simp only [List.foldlM] at h
    obtain ⟨v, hv, h⟩ := bind_ok h
    have e1 := hf _ _ _ hb hv
    exact Ext.trans e1 (ih _ e1.1 h)

@[grind →] theorem saoEndBlock_ext (e : Env) (s s' : State) (hb : Bnd s) (h : saoEndBlock e s = .ok s') : Ext s s' := by
  unfold saoEndBlock at h
  dsimp only at h
  obtain ⟨v, hv, h⟩ := bind_ok h
  have hv' : Ext s v := by
    split at hv
    · obtain ⟨w, hw, hv⟩ := bind_ok hv
      simp only [pure, Except.pure, Except.ok.injEq] at hv
      rw [← hv]
      have e1 := foldlM_ext _ (fun s a s' hb h => handleTimeoutOrder_ext e s s' a hb h) _ _ _ hb hw
      exact Ext.trans e1 (os_ext rfl e1.1)
    · simp only [pure, Except.pure, Except.ok.injEq] at hv; rw [← hv]; exact Ext.refl hb
  split at h
  · obtain ⟨w, hw, h⟩ := bind_ok h
    simp only [pure, Except.pure, Except.ok.injEq] at h
    rw [← h]
    have e1 := foldlM_ext _ (fun s a s' hb h => handleExpiredShard_ext e s s' a hb h) _ _ _ hv'.1 hw
    exact Ext.trans hv' (Ext.trans e1 (os_ext rfl e1.1))
  · simp only [pure, Except.pure, Except.ok.injEq] at h; rw [← h]; exact hv'

@[grind →] theorem endBlock_ext (e : Env) (s s' : State) (hb : Bnd s) (h : endBlock e s = .ok s') : Ext s s' := by
  unfold endBlock at h
  obtain ⟨v, hv, h⟩ := bind_ok h
  simp only [pure, Except.pure, Except.ok.injEq] at h
  rw [← h]
  have e1 := saoEndBlock_ext _ _ _ hb hv
  have e2 := os_ext (nodeEndBlock_os v) e1.1
  exact Ext.trans e1 (Ext.trans e2 (os_ext (modelEndBlock_os _) e2.1))

end SaoVerif
