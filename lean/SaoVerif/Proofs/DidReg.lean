import SaoVerif.Properties.C17KeyPay
import SaoVerif.Proofs.Pigeon
/-! Supporting lemmas for `Properties/C17Registry.lean`: what the unbinding loop of Update returns, and that an accepted
    Update handles exactly the DID's own account list. -/
namespace SaoVerif

/-- the unbinding loop: its result is the accumulator followed by the stored account ids of the removed accountDids, each
    of which was described by the message and is not the DID's payment account on this chain -/
theorem updateChk_spec (m : DidUpdateMsg) (d : DidState) (p : Addr) (l : List Bytes) (acc r : List Bytes)
    (h : updateChk m d p l acc = .ok r) :
    (∀ id ∈ acc, id ∈ r) ∧
    (∀ a ∈ l, ∃ id, Map.find? d.accountId a = some id ∧ id ∈ r) ∧
    (∀ id ∈ r, id ∈ acc ∨ ∃ a ∈ l, Map.find? d.accountId a = some id ∧
        ∃ c ∈ m.removeAcc, c.raw = id ∧ ¬(c.cosmos = true ∧ c.chainOk = true ∧ c.addr = p)) := by
  induction l generalizing acc with
  | nil =>
    unfold updateChk at h
    simp only [pure, Except.pure, Except.ok.injEq] at h
    subst h
    exact ⟨fun _ h => h, fun _ h => (nomatch h), fun _ h => Or.inl h⟩
  | cons a t ih =>
    unfold updateChk at h
    split at h
    · cases h
    · rename_i accId hacc
      split at h
      · cases h
      · rename_i c hc
        split at h
        · cases h
        · split at h
          · cases h
          · rename_i hnp
            obtain ⟨i1, i2, i3⟩ := ih _ h
            refine ⟨fun id hid => i1 id (List.mem_append_left _ hid), ?_, ?_⟩
            · intro b hb
              rcases List.mem_cons.mp hb with rfl | hb
              · exact ⟨accId, hacc, i1 accId (List.mem_append_right _ List.mem_cons_self)⟩
              · exact i2 b hb
            · intro id hid
              rcases i3 id hid with h3 | ⟨b, hb, hfb, hcb⟩
              · rcases List.mem_append.mp h3 with h3 | h3
                · exact Or.inl h3
                · simp only [List.mem_singleton] at h3
                  subst h3
                  right
                  refine ⟨a, List.mem_cons_self, hacc, c, List.mem_of_find?_eq_some hc, ?_, ?_⟩
                  · have := List.find?_some hc; simpa using this
                  · simpa using hnp
              · exact Or.inr ⟨b, List.mem_cons_of_mem _ hb, hfb, hcb⟩

/-- an accepted Update names, between its remove list and its update list, exactly the accountDids of the DID's list:
    in particular every removed accountDid is one of the DID's own (given that the list has no duplicates) -/
theorem updatePre1_remove_subset (d : DidState) (m : DidUpdateMsg) (accList : List Bytes) (h : updatePre1 d m accList = none)
    (hn : accList.Nodup) : ∀ a ∈ m.remove, a ∈ accList := by
  unfold updatePre1 at h
  split at h; · cases h
  split at h; · cases h
  split at h; · cases h
  split at h; · cases h
  split at h; · cases h
  rename_i hlen
  split at h; · cases h
  rename_i hall
  have hlen : accList.length = m.remove.length + m.update.length := by simpa using hlen
  have hsub : ∀ x ∈ accList, x ∈ m.remove ++ m.update.map (·.1) := by
    intro x hx
    by_cases h1 : x ∈ m.remove
    · exact List.mem_append_left _ h1
    · have hall : ∀ (x : Bytes), x ∈ accList → ¬x ∈ m.remove → ∃ x_1, (x, x_1) ∈ m.update := by simpa using hall
      obtain ⟨v, hv⟩ := hall x hx h1
      exact List.mem_append_right _ (List.mem_map.mpr ⟨(x, v), hv, rfl⟩)
  have := nodup_subset_superset accList (m.remove ++ m.update.map (·.1)) hn hsub (by simp [hlen])
  intro a ha
  exact this a (List.mem_append_left _ ha)

/-- removing a list of elements one by one from a duplicate-free list -/
theorem foldl_erase_nodup {α : Type} [BEq α] [LawfulBEq α] (r : List α) (l : List α) (hn : l.Nodup) :
    (r.foldl (fun l a => l.erase a) l).Nodup ∧ ∀ x, x ∈ r.foldl (fun l a => l.erase a) l ↔ (x ∈ l ∧ x ∉ r) := by
  induction r generalizing l with
  | nil => exact ⟨hn, fun x => by simp⟩
  | cons a t ih =>
    simp only [List.foldl_cons]
    obtain ⟨i1, i2⟩ := ih (l.erase a) (hn.erase a)
    refine ⟨i1, fun x => ?_⟩
    rw [i2 x, hn.mem_erase_iff]
    simp only [List.mem_cons, not_or]
    constructor
    · rintro ⟨⟨h1, h2⟩, h3⟩; exact ⟨h2, h1, h3⟩
    · rintro ⟨h2, h1, h3⟩; exact ⟨⟨h1, h2⟩, h3⟩

end SaoVerif
