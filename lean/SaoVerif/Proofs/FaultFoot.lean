import SaoVerif.Proofs.Fixed2
/-!
# Who writes the fault records

`fltPart s` = the fault store, its (provider, shard) index and the fishing-reward ledger. Every function of the model except the
two fault-message handlers (`saoReportFaults`, `saoRecoverFaults` and their steps) leaves it exactly as it was. The lemmas
follow `Proofs/Fixed.lean` function by function; `Properties/C19Footprint.lean` lifts this to operations and histories.
-/
namespace SaoVerif

def fltPart (s : State) : List Fault × List FaultIdx × List ((Nat × Nat) × Dec) := (s.faults, s.faultIdx, s.fishing)

@[simp] theorem setOrder_flt (s : State) (o : Order) : fltPart (s.setOrder o) = fltPart s := rfl
@[simp] theorem removeOrder_flt (s : State) (i : Nat) : fltPart (s.removeOrder i) = fltPart s := rfl
@[simp] theorem appendOrder_flt (s : State) (o : Order) : fltPart (s.appendOrder o).2 = fltPart s := rfl
@[simp] theorem setShard_flt (s : State) (x : Shard) : fltPart (s.setShard x) = fltPart s := rfl
@[simp] theorem removeShard_flt (s : State) (i : Nat) : fltPart (s.removeShard i) = fltPart s := rfl
@[simp] theorem appendShard_flt (s : State) (x : Shard) : fltPart (s.appendShard x).2 = fltPart s := rfl
@[simp] theorem setMeta_flt (s : State) (m : Metadata) : fltPart (s.setMeta m) = fltPart s := rfl
@[simp] theorem removeMeta_flt (s : State) (d : Bytes) : fltPart (s.removeMeta d) = fltPart s := rfl
@[simp] theorem setModel_flt (s : State) (m : ModelEntry) : fltPart (s.setModel m) = fltPart s := rfl
@[simp] theorem removeModel_flt (s : State) (k : ModelKey) : fltPart (s.removeModel k) = fltPart s := rfl
@[simp] theorem setNode_flt (e : Env) (s : State) (n : Node) : fltPart (s.setNode e n) = fltPart s := rfl
@[simp] theorem setPledge_flt (s : State) (p : Pledge) : fltPart (s.setPledge p) = fltPart s := rfl
@[simp] theorem setWorker_flt (s : State) (w : Worker) : fltPart (s.setWorker w) = fltPart s := rfl
@[simp] theorem setDebt_flt (s : State) (a : Addr) (d : Int) : fltPart (s.setDebt a d) = fltPart s := rfl
@[simp] theorem removeDebt_flt (s : State) (a : Addr) : fltPart (s.removeDebt a) = fltPart s := rfl
@[simp] theorem setBal_flt (s : State) (a : Addr) (v : Int) : fltPart (s.setBal a v) = fltPart s := rfl
@[simp] theorem setDataExpireBlock_flt (s : State) (d : Bytes) (a : Nat) : fltPart (setDataExpireBlock s d a) = fltPart s := rfl
@[simp] theorem setTimeoutOrderBlock_flt (s : State) (i a : Nat) : fltPart (setTimeoutOrderBlock s i a) = fltPart s := rfl
@[simp] theorem setExpiredShardBlock_flt (s : State) (i a : Nat) : fltPart (setExpiredShardBlock s i a) = fltPart s := rfl

theorem send_flt (s s' : State) (a b : Addr) (x : Int) (h : s.send a b x = .ok s') : fltPart s' = fltPart s := by
  unfold State.send at h
  split at h
  · cases h
  · split at h
    · cases h
    · simp only [pure, Except.pure, Except.ok.injEq] at h; subst h; rfl

theorem sendLit_flt (s s' : State) (a b : Addr) (x : Int) (h : s.sendLit a b x = .ok s') : fltPart s' = fltPart s := by
  unfold State.sendLit at h
  split at h
  · cases h
  · exact send_flt _ _ _ _ _ h

theorem removeDataExpireBlock_flt (s s' : State) (d : Bytes) (a : Nat) (h : removeDataExpireBlock s d a = .ok s') :
    fltPart s' = fltPart s := by
  unfold removeDataExpireBlock at h
  split at h
  · simp only [pure, Except.pure, Except.ok.injEq] at h; subst h; rfl
  · split at h
    · cases h
    · simp only at h
      split at h <;> (simp only [pure, Except.pure, Except.ok.injEq] at h; subst h; rfl)

/-! ### market -/
theorem workerRelease_flt (s : State) (o : Order) (sh : Shard) : fltPart (workerRelease s o sh).1 = fltPart s := by
  unfold workerRelease; split <;> rfl

@[simp] theorem workerAppend_flt (s : State) (o : Order) (sh : Shard) : fltPart (workerAppend s o sh) = fltPart s := rfl

theorem marketDeposit_flt (e : Env) (s s' : State) (o : Order) (x : Option String)
    (h : marketDeposit e s o = .ok (s', x)) : fltPart s' = fltPart s := by
  unfold marketDeposit at h
  split at h
  · simp only [pure, Except.pure, Except.ok.injEq, Prod.mk.injEq] at h; rw [← h.1]
  · split at h
    · simp only [pure, Except.pure, Except.ok.injEq, Prod.mk.injEq] at h; rw [← h.1]
    · rename_i s1 hs
      simp only [pure, Except.pure, Except.ok.injEq, Prod.mk.injEq] at h; rw [← h.1]
      exact send_flt _ _ _ _ _ hs

theorem withdrawLoop_flt (o : Order) (l : List Nat) (s : State) (r : Dec) : fltPart (withdrawLoop o l s r).1 = fltPart s := by
  induction l generalizing s r with
  | nil => rfl
  | cons id t ih =>
    unfold withdrawLoop
    split
    · exact ih _ _
    · split
      · exact ih _ _
      · simp only
        split
        · split
          · rename_i sh _ _ _ _ s1 m hw
            have := workerRelease_flt s o sh
            rw [hw] at this
            exact this
          · rename_i sh _ _ _ _ s1 hw
            rw [ih]
            have := workerRelease_flt s o sh
            rw [hw] at this
            exact this
        · split
          · exact ih _ _
          · split <;> exact ih _ _

attribute [grind →] send_flt sendLit_flt removeDataExpireBlock_flt marketDeposit_flt
attribute [grind =] setOrder_flt removeOrder_flt appendOrder_flt setShard_flt removeShard_flt appendShard_flt
  setMeta_flt removeMeta_flt setModel_flt removeModel_flt setNode_flt setPledge_flt setWorker_flt setDebt_flt
  removeDebt_flt setBal_flt setDataExpireBlock_flt setTimeoutOrderBlock_flt setExpiredShardBlock_flt workerAppend_flt
  workerRelease_flt withdrawLoop_flt

theorem fltPart_def (s : State) : fltPart s = (s.faults, s.faultIdx, s.fishing) := rfl

macro "flt_auto" h:ident : tactic => `(tactic| (
  simp only [bind, Except.bind, pure, Except.pure, throw, throwThe, MonadExceptOf.throw] at $h:ident
  repeat' (split at $h:ident)
  all_goals (first | cases $h:ident | skip)
  all_goals (try simp only [Except.ok.injEq, Prod.mk.injEq] at $h:ident)
  all_goals (first | grind | (simp only [fltPart_def, State.setOrder, State.removeOrder, State.setShard, State.removeShard, State.setMeta,
      State.removeMeta, State.setModel, State.removeModel, State.setNode, State.setPledge, State.setWorker, State.setDebt,
      State.removeDebt, State.setBal, State.setMeta]; grind [fltPart_def]))))

@[grind →] theorem marketWithdraw_flt (e : Env) (s s' : State) (o : Order) (x : Int × Option String)
    (h : marketWithdraw e s o = .ok (s', x)) : fltPart s' = fltPart s := by
  unfold marketWithdraw at h
  flt_auto h

@[grind =] theorem marketMigrate_flt (s : State) (o : Order) (a b : Shard) : fltPart (marketMigrate s o a b).1 = fltPart s := by
  unfold marketMigrate
  split <;> grind

/-! ### node -/
@[grind →] theorem nodeCreate_flt (e : Env) (s s' : State) (c : Addr) (h : nodeCreate e s c = .ok s') : fltPart s' = fltPart s := by
  unfold nodeCreate at h
  flt_auto h

@[grind →] theorem nodeReset_flt (e : Env) (s s' : State) (m : ResetMsg) (h : nodeReset e s m = .ok s') : fltPart s' = fltPart s := by
  unfold nodeReset at h
  flt_auto h

@[grind →] theorem promoteIfDue_flt (e : Env) (s s' : State) (c : Addr) (p : Pledge) (h : promoteIfDue e s c p = .ok s') :
    fltPart s' = fltPart s := by
  unfold promoteIfDue at h
  flt_auto h

@[grind →] theorem demoteIfDue_flt (e : Env) (s s' : State) (c : Addr) (p : Pledge) (h : demoteIfDue e s c p = .ok s') :
    fltPart s' = fltPart s := by
  unfold demoteIfDue at h
  flt_auto h

@[grind →] theorem nodeAddVstorage_flt (e : Env) (s s' : State) (c : Addr) (n : Nat) (h : nodeAddVstorage e s c n = .ok s') :
    fltPart s' = fltPart s := by
  unfold nodeAddVstorage at h
  flt_auto h

@[grind →] theorem nodeRemoveVstorage_flt (e : Env) (s s' : State) (c : Addr) (n : Nat) (h : nodeRemoveVstorage e s c n = .ok s') :
    fltPart s' = fltPart s := by
  unfold nodeRemoveVstorage at h
  flt_auto h

@[grind =] theorem repayPledgeDebt_flt (s : State) (sp : Addr) (l : List Int) : fltPart (repayPledgeDebt s sp l).1 = fltPart s := by
  unfold repayPledgeDebt
  repeat' split
  all_goals grind

@[grind →] theorem marketClaim_flt (s s' : State) (sp : Addr) (x : Int) (h : marketClaim s sp = .ok (s', x)) : fltPart s' = fltPart s := by
  unfold marketClaim at h
  flt_auto h

@[grind →] theorem shardRelease_flt (e : Env) (s s' : State) (sp : Addr) (sh : Option Shard) (x : Option String)
    (h : shardRelease e s sp sh = .ok (s', x)) : fltPart s' = fltPart s := by
  unfold shardRelease at h
  flt_auto h

@[grind →] theorem shardPledge_flt (e : Env) (s s' : State) (sh : Shard) (up : Dec) (x : Option String)
    (h : shardPledge e s sh up = .ok (s', x)) : fltPart s' = fltPart s := by
  unfold shardPledge at h
  flt_auto h

@[grind →] theorem nodeClaimReward_flt (e : Env) (s s' : State) (c : Addr) (x : Int)
    (h : nodeClaimReward e s c = .ok (s', x)) : fltPart s' = fltPart s := by
  unfold nodeClaimReward at h
  flt_auto h

/-! ### order / model keepers -/
@[grind =] theorem newShardTask_flt (s : State) (o : Order) (sp : Addr) : fltPart (newShardTask s o sp).2 = fltPart s := rfl

@[grind =] theorem generateShards_flt (s : State) (o : Order) (sps : List Addr) : fltPart (generateShards s o sps).2 = fltPart s := by
  unfold generateShards
  have gen : ∀ (l : List Addr) (acc : Order × State),
      fltPart (l.foldl (fun (acc : Order × State) sp =>
        let (sh, s') := newShardTask acc.2 acc.1 sp
        ({ acc.1 with shards := acc.1.shards ++ [sh.id] }, s')) acc).2 = fltPart acc.2 := by
    intro l
    induction l with
    | nil => intro acc; rfl
    | cons a t ih => intro acc; simp only [List.foldl_cons]; rw [ih]; rfl
  exact gen sps (o, s)

@[grind =] theorem newOrder_flt (s : State) (o : Order) (sps : List Addr) : fltPart (newOrder s o sps).2 = fltPart s := by
  unfold newOrder
  simp only
  rw [setOrder_flt, generateShards_flt]
  rfl

@[grind =] theorem renewOrder_flt (e : Env) (s : State) (o : Order) : fltPart (renewOrder e s o).1 = fltPart s := by
  unfold renewOrder
  repeat' split
  all_goals (first | rfl | grind)

@[grind →] theorem sendToDidBalances_flt (s s' : State) (d : Did) (a : Int) (h : sendToDidBalances s d a = .ok s') : s' = s := by
  unfold sendToDidBalances at h
  split at h
  · simp only [pure, Except.pure, Except.ok.injEq] at h; exact h.symm
  · cases h

@[grind →] theorem orderTerminate_flt (e : Env) (s s' : State) (oid : Nat) (r : Int) (x : Option String)
    (h : orderTerminate e s oid r = .ok (s', x)) : fltPart s' = fltPart s := by
  unfold orderTerminate at h
  flt_auto h

@[grind =] theorem refundOrder_flt (e : Env) (s : State) (oid : Nat) : fltPart (refundOrder e s oid).1 = fltPart s := by
  unfold refundOrder
  repeat' split
  all_goals (first | rfl | grind)

@[grind →] theorem resetMetaDuration_flt (s s' : State) (m m' : Metadata) (h : resetMetaDuration s m = .ok (s', m')) :
    fltPart s' = fltPart s := by
  unfold resetMetaDuration at h
  flt_auto h

@[grind →] theorem extendMetaDuration_flt (s s' : State) (d : Bytes) (a : Nat) (h : extendMetaDuration s d a = .ok s') :
    fltPart s' = fltPart s := by
  unfold extendMetaDuration at h
  flt_auto h

@[grind =] theorem deleteMeta_flt (s : State) (d : Bytes) : fltPart (deleteMeta s d).1 = fltPart s := by
  unfold deleteMeta
  split <;> rfl

@[grind →] theorem terminateRel_flt (e : Env) (o : Order) (l : List Nat) (s s' : State) (x : Option String)
    (h : modelTerminateOrder.rel e o l s = .ok (s', x)) : fltPart s' = fltPart s := by
  induction l generalizing s with
  | nil =>
    unfold modelTerminateOrder.rel at h
    simp only [pure, Except.pure, Except.ok.injEq, Prod.mk.injEq] at h
    rw [← h.1]
  | cons id t ih =>
    unfold modelTerminateOrder.rel at h
    split at h
    · exact ih _ h
    · split at h
      · simp only [bind, Except.bind, pure, Except.pure] at h
        split at h
        · cases h
        · rename_i y hy
          obtain ⟨s1, er⟩ := y
          simp only at h
          split at h
          · simp only [Except.ok.injEq, Prod.mk.injEq] at h; rw [← h.1]; exact shardRelease_flt _ _ _ _ _ _ hy
          · rw [ih _ h]; exact shardRelease_flt _ _ _ _ _ _ hy
      · exact ih _ h

@[grind →] theorem modelTerminateOrder_flt (e : Env) (s s' : State) (o : Order) (x : Option String)
    (h : modelTerminateOrder e s o = .ok (s', x)) : fltPart s' = fltPart s := by
  unfold modelTerminateOrder at h
  flt_auto h

@[grind →] theorem rollbackMeta_flt (s s' : State) (d : Bytes) (h : rollbackMeta s d = .ok s') : fltPart s' = fltPart s := by
  unfold rollbackMeta at h
  flt_auto h

@[grind →] theorem cancelOrder_flt (e : Env) (s s' : State) (oid : Nat) (x : Option String)
    (h : cancelOrder e s oid = .ok (s', x)) : fltPart s' = fltPart s := by
  unfold cancelOrder at h
  flt_auto h

@[grind →] theorem updateMetaStatusAndCommit_flt (s s' : State) (o : Order) (x : Option String)
    (h : updateMetaStatusAndCommit s o = .ok (s', x)) : fltPart s' = fltPart s := by
  unfold updateMetaStatusAndCommit at h
  flt_auto h

@[grind =] theorem newMeta_flt (s : State) (o : Order) (m : Metadata) : fltPart (newMeta s o m).1 = fltPart s := by
  unfold newMeta
  repeat' split
  all_goals rfl

@[grind =] theorem updatePermission_flt (s : State) (ow : Did) (d : Bytes) (ro rw : List Did) :
    fltPart (updatePermission s ow d ro rw).1 = fltPart s := by
  unfold updatePermission
  repeat' split
  all_goals rfl

@[grind =] theorem foldl_removeShard_flt (ids : List Nat) (s : State) :
    fltPart (ids.foldl (fun s id => s.removeShard id) s) = fltPart s := by
  induction ids generalizing s with
  | nil => rfl
  | cons a t ih => simp only [List.foldl_cons]; rw [ih]; rfl

@[grind →] theorem updateMetaLoop_flt (e : Env) (lc : Bytes) (fuel : Nat) (s s' : State) (orders shardSet : List Nat)
    (x : List Nat × List Nat × Option String)
    (h : updateMeta.loop e lc fuel s orders shardSet = .ok (s', x)) : fltPart s' = fltPart s := by
  induction fuel generalizing s orders shardSet with
  | zero =>
    unfold updateMeta.loop at h
    simp only [pure, Except.pure, Except.ok.injEq, Prod.mk.injEq] at h
    rw [← h.1]
  | succ n ih =>
    unfold updateMeta.loop at h
    split at h
    · simp only [pure, Except.pure, Except.ok.injEq, Prod.mk.injEq] at h; rw [← h.1]
    · split at h
      · simp only [pure, Except.pure, Except.ok.injEq, Prod.mk.injEq] at h; rw [← h.1]
      · split at h
        · simp only [pure, Except.pure, Except.ok.injEq, Prod.mk.injEq] at h; rw [← h.1]
        · simp only [bind, Except.bind, pure, Except.pure] at h
          split at h
          · cases h
          · rename_i y hy
            obtain ⟨s1, er⟩ := y
            simp only at h
            split at h
            · simp only [Except.ok.injEq, Prod.mk.injEq] at h; rw [← h.1]; exact modelTerminateOrder_flt _ _ _ _ _ hy
            · rw [ih _ _ _ h]; exact modelTerminateOrder_flt _ _ _ _ _ hy

@[grind →] theorem updateMeta_flt (e : Env) (s s' : State) (o : Order) (x : Option String)
    (h : updateMeta e s o = .ok (s', x)) : fltPart s' = fltPart s := by
  unfold updateMeta at h
  flt_auto h

/-! ### sao handlers -/
@[grind →] theorem getSps_flt (s s' : State) (o : Order) (d : Bytes) (sps : List Node) (h : getSps s o d = .ok (s', sps)) :
    fltPart s' = fltPart s := by
  have := getSps_round _ _ _ _ _ h
  unfold sameButRound at this
  rw [this]; rfl

@[grind →] theorem randomSP_flt (s s' : State) (c : Int) (ig : List Addr) (sz : Int) (sps : List Node)
    (h : randomSP s c ig sz = .ok (s', sps)) : fltPart s' = fltPart s := by
  have := randomSP_round _ _ _ _ _ _ h
  unfold sameButRound at this
  rw [this]; rfl

@[grind →] theorem storeAttach_flt (s s' : State) (m : StoreMsg) (o : Order) (a b : Bytes) (h : storeAttach s m o a b = .ok s') :
    fltPart s' = fltPart s := by
  unfold storeAttach softTx softTx' at h
  flt_auto h

@[grind →] theorem saoReadyBody_flt (s s' : State) (o : Order) (h : saoReadyBody s o = .ok s') : fltPart s' = fltPart s := by
  unfold saoReadyBody at h
  flt_auto h

@[grind →] theorem saoReady_flt (s s' : State) (c p : Addr) (oid : Nat) (h : saoReady s c p oid = .ok s') : fltPart s' = fltPart s := by
  unfold saoReady at h
  flt_auto h

@[grind =] theorem increaseReputation_flt (e : Env) (s : State) (a : Addr) (v : Int) : fltPart (increaseReputation e s a v) = fltPart s := by
  unfold increaseReputation
  split <;> rfl

@[grind →] theorem cancelLoop_flt (e : Env) (l : List Nat) (s s' : State) (h : saoCancelBody.loop e l s = .ok s') :
    fltPart s' = fltPart s := by
  induction l generalizing s with
  | nil => unfold saoCancelBody.loop at h; simp only [pure, Except.pure, Except.ok.injEq] at h; rw [← h]
  | cons id t ih =>
    unfold saoCancelBody.loop softTx at h
    simp only [bind, Except.bind, pure, Except.pure, throw, throwThe, MonadExceptOf.throw] at h
    split at h
    · split at h
      · cases h
      · rename_i v hv
        rw [ih _ h, removeShard_flt]
        repeat' (split at hv)
        all_goals (first | cases hv | skip)
        all_goals (try simp only [Except.ok.injEq] at hv)
        all_goals grind
    · cases h

@[grind →] theorem saoCancelBody_flt (e : Env) (s s' : State) (o : Order) (oid : Nat) (h : saoCancelBody e s o oid = .ok s') :
    fltPart s' = fltPart s := by
  unfold saoCancelBody softTx at h
  flt_auto h

@[grind →] theorem saoCancel_flt (e : Env) (s s' : State) (c p : Addr) (oid : Nat) (h : saoCancel e s c p oid = .ok s') :
    fltPart s' = fltPart s := by
  unfold saoCancel at h
  flt_auto h

theorem foldl_flt {α : Type} (f : State → α → State) (hf : ∀ s a, fltPart (f s a) = fltPart s) (l : List α) (s : State) :
    fltPart (l.foldl f s) = fltPart s := by
  induction l generalizing s with
  | nil => rfl
  | cons a t ih => simp only [List.foldl_cons]; rw [ih, hf]

@[grind →] theorem completeMigration_flt (e : Env) (s s' : State) (o : Order) (sh : Shard) (x : Order × Shard × Order)
    (h : completeMigration e s o sh = .ok (s', x)) : fltPart s' = fltPart s := by
  unfold completeMigration softTx softTx' at h
  simp only [bind, Except.bind, pure, Except.pure, throw, throwThe, MonadExceptOf.throw] at h
  split at h
  · cases h
  · split at h
    · cases h
    · rename_i v hv
      have hv' : fltPart v = fltPart s := by
        split at hv
        · cases hv
        · rename_i w hw
          split at hv
          · cases hv
          · simp only [Except.ok.injEq] at hv
            rw [← hv]
            exact shardRelease_flt _ _ _ _ _ _ hw
      split at h
      · split at h
        · cases h
        · rename_i v2 hv2
          have hv2' : fltPart v2 = fltPart v := by
            split at hv2
            · cases hv2
            · simp only [Except.ok.injEq] at hv2
              rw [← hv2]
              exact marketMigrate_flt _ _ _ _
          simp only [Except.ok.injEq, Prod.mk.injEq] at h
          rw [← h.1, foldl_flt _ (by intro s a; split <;> rfl)]
          split <;> simp [hv2', hv']
      · cases h

@[grind →] theorem completeFresh_flt (e : Env) (s s' : State) (o : Order) (sh : Shard) (x : Order × Shard × Order)
    (h : completeFresh e s o sh = .ok (s', x)) : fltPart s' = fltPart s := by
  unfold completeFresh softTx at h
  simp only [bind, Except.bind, pure, Except.pure, throw, throwThe, MonadExceptOf.throw] at h
  split at h
  · split at h
    · cases h
    · rename_i v hv
      have hv' : fltPart v = fltPart s := by
        split at hv
        · cases hv
        · rename_i w hw
          split at hv
          · cases hv
          · simp only [Except.ok.injEq] at hv
            rw [← hv, updateMeta_flt _ _ _ _ _ hw]; rfl
      split at h
      · cases h
      · rename_i v2 hv2
        have hv2' : fltPart v2 = fltPart v := by
          split at hv2
          · cases hv2
          · rename_i w hw
            split at hv2
            · cases hv2
            · simp only [Except.ok.injEq] at hv2
              rw [← hv2]; exact marketDeposit_flt _ _ _ _ _ hw
        simp only [Except.ok.injEq, Prod.mk.injEq] at h
        rw [← h.1, hv2', hv']
  · simp only [Except.ok.injEq, Prod.mk.injEq] at h
    rw [← h.1]; rfl

@[grind →] theorem completeTail_flt (e : Env) (s s' : State) (md : Metadata) (o : Order) (sh : Shard) (ip : Order) (p : Addr) (cid : StrId)
    (h : completeTail e s md o sh ip p cid = .ok s') : fltPart s' = fltPart s := by
  unfold completeTail at h
  obtain ⟨v, hv, h⟩ := bind_ok h
  obtain ⟨v2, hv2, h⟩ := bind_ok h
  dsimp only at h
  split at h
  · exact (throw_bind_ne h).elim
  simp only [pure, Except.pure, Except.ok.injEq] at h
  rw [← h, setOrder_flt, increaseReputation_flt, shardPledge_flt _ _ _ _ _ _ (softTx_ok hv2), extendMetaDuration_flt _ _ _ _ hv]
  rfl

@[grind →] theorem saoCompleteBody_flt (e : Env) (s s' : State) (p : Addr) (oid sz : Nat) (ok : Bool) (cid : StrId)
    (h : saoCompleteBody e s p oid sz ok cid = .ok s') : fltPart s' = fltPart s := by
  unfold saoCompleteBody at h
  obtain ⟨g, _, h⟩ := bind_ok h
  obtain ⟨o, sh, md⟩ := g
  dsimp only at h
  obtain ⟨v, hv, h⟩ := bind_ok h
  obtain ⟨s1, o1, sh1, ip⟩ := v
  dsimp only at h
  rw [completeTail_flt _ _ _ _ _ _ _ _ _ h]
  split at hv
  · exact completeMigration_flt _ _ _ _ _ _ hv
  · exact completeFresh_flt _ _ _ _ _ _ hv

@[grind →] theorem saoComplete_flt (e : Env) (s s' : State) (c p : Addr) (oid sz : Nat) (ok : Bool) (cid : StrId)
    (h : saoComplete e s c p oid sz ok cid = .ok s') : fltPart s' = fltPart s := by
  unfold saoComplete at h
  split at h
  · cases h
  · exact saoCompleteBody_flt _ _ _ _ _ _ _ _ h

/-! ### Terminate -/
@[grind →] theorem terminateLoop_flt (e : Env) (l : List Nat) (s s' : State) (set set' : List Nat)
    (h : saoTerminate.loop e l s set = .ok (s', set')) : fltPart s' = fltPart s := by
  induction l generalizing s set with
  | nil =>
    unfold saoTerminate.loop at h
    simp only [pure, Except.pure, Except.ok.injEq, Prod.mk.injEq] at h
    rw [← h.1]
  | cons oid t ih =>
    unfold saoTerminate.loop at h
    split at h
    · exact ih _ _ h
    · obtain ⟨v, hv, h⟩ := bind_ok h
      rw [ih _ _ h, modelTerminateOrder_flt _ _ _ _ _ (softTx_ok hv)]

@[grind →] theorem saoTerminate_flt (e : Env) (s s' : State) (c p : Addr) (ow : Did) (d : Bytes) (sv : Bool) (sd : Did)
    (h : saoTerminate e s c p ow d sv sd = .ok s') : fltPart s' = fltPart s := by
  unfold saoTerminate at h
  dsimp only at h
  split at h
  · exact (throw_bind_ne h).elim
  split at h
  · exact (throw_bind_ne h).elim
  split at h
  · rename_i md hmd
    split at h
    · exact (throw_bind_ne h).elim
    · obtain ⟨v, hv, h⟩ := bind_ok h
      obtain ⟨s1, set⟩ := v
      dsimp only at h
      have := softTx'_ok h
      rw [← this, deleteMeta_flt, foldl_removeShard_flt, terminateLoop_flt _ _ _ _ _ _ hv]
  · cases h

/-! ### Renew -/
theorem send_or_self_flt (s : State) (a b : Addr) (x : Int) :
    fltPart (match s.send a b x with | .ok s' => s' | .error _ => s) = fltPart s := by
  split
  · rename_i s' h; exact send_flt _ _ _ _ _ h
  · rfl

theorem sendLit_or_self_flt (s : State) (a b : Addr) (x : Int) :
    fltPart (match s.sendLit a b x with | .ok s' => s' | .error _ => s) = fltPart s := by
  split
  · rename_i s' h; exact sendLit_flt _ _ _ _ _ h
  · rfl

@[grind →] theorem renewShard_flt (e : Env) (s s' : State) (sh : Shard) (oid dur : Nat) (up : Dec) (x : Int × Nat)
    (h : renewShard e s sh oid dur up = .ok (s', x)) : fltPart s' = fltPart s := by
  unfold renewShard at h
  obtain ⟨np, _, h⟩ := bind_ok h
  obtain ⟨v, hv, h⟩ := bind_ok h
  obtain ⟨s1, sh1, chg⟩ := v
  dsimp only at h
  simp only [pure, Except.pure, Except.ok.injEq, Prod.mk.injEq] at h
  rw [← h.1, setShard_flt]
  split at hv
  · dsimp only at hv
    split at hv
    · rename_i pl hpl
      simp only [pure, Except.pure, Except.ok.injEq, Prod.mk.injEq] at hv
      rw [← hv.1, setPledge_flt]
      split
      · exact send_or_self_flt _ _ _ _
      · rw [setDebt_flt]; exact sendLit_or_self_flt _ _ _ _
    · cases hv
  · simp only [pure, Except.pure, Except.ok.injEq, Prod.mk.injEq] at hv
    rw [← hv.1]

@[grind →] theorem renewLoop_flt (e : Env) (dur : Nat) (newO : Order) (l : List Shard) (s s' : State) (chg : Int) (mx : Nat) (x : Int × Nat)
    (h : renewBody.loop e dur newO l s chg mx = .ok (s', x)) : fltPart s' = fltPart s := by
  induction l generalizing s chg mx with
  | nil =>
    unfold renewBody.loop at h
    simp only [pure, Except.pure, Except.ok.injEq, Prod.mk.injEq] at h
    rw [← h.1]
  | cons sh t ih =>
    unfold renewBody.loop at h
    split at h
    · exact ih _ _ _ h
    · obtain ⟨v, hv, h⟩ := bind_ok h
      obtain ⟨s1, c, ex⟩ := v
      dsimp only at h
      rw [ih _ _ _ h, renewShard_flt _ _ _ _ _ _ _ _ hv]

@[grind →] theorem renewBody_flt (e : Env) (s s' : State) (pool : Pool) (c p : Addr) (dur : Nat) (to : Int) (md : Metadata) (o : Order)
    (shs : List Shard) (x : Pool × Bool) (h : renewBody e s pool c p dur to md o shs = .ok (s', x)) : fltPart s' = fltPart s := by
  unfold renewBody at h
  obtain ⟨amount, _, h⟩ := bind_ok h
  dsimp only at h
  split at h
  · -- the charge failed: this data id is skipped, the state is what renewOrder returned
    simp only [pure, Except.pure, Except.ok.injEq, Prod.mk.injEq] at h
    rw [← h.1, renewOrder_flt]
  · obtain ⟨v, hv, h⟩ := bind_ok h
    obtain ⟨s1, c1, mx⟩ := v
    dsimp only at h
    obtain ⟨s2, hs2, h⟩ := bind_ok h
    obtain ⟨v3, hv3, h⟩ := bind_ok h
    obtain ⟨s3, er⟩ := v3
    simp only [pure, Except.pure, Except.ok.injEq, Prod.mk.injEq] at h
    rw [← h.1, updateMeta_flt _ _ _ _ _ hv3, extendMetaDuration_flt _ _ _ _ hs2, renewLoop_flt _ _ _ _ _ _ _ _ _ hv, renewOrder_flt]

@[grind →] theorem renewOne_flt (e : Env) (s s' : State) (pool : Pool) (c p : Addr) (sd : Did) (dur : Nat) (to : Int) (d : Bytes)
    (x : Pool × Bool) (h : renewOne e s pool c p sd dur to d = .ok (s', x)) : fltPart s' = fltPart s := by
  unfold renewOne at h
  split at h
  · simp only [pure, Except.pure, Except.ok.injEq, Prod.mk.injEq] at h; rw [← h.1]
  · exact renewBody_flt _ _ _ _ _ _ _ _ _ _ _ _ h

@[grind →] theorem saoRenewLoop_flt (e : Env) (c p : Addr) (sd : Did) (dur : Nat) (to : Int) (l : List Bytes) (s s' : State) (pool : Pool)
    (oks oks' : List Bool) (h : saoRenew.loop e c p sd dur to l s pool oks = .ok (s', oks')) : fltPart s' = fltPart s := by
  induction l generalizing s pool oks with
  | nil =>
    unfold saoRenew.loop at h
    simp only [pure, Except.pure, Except.ok.injEq, Prod.mk.injEq] at h
    rw [← h.1]
  | cons d t ih =>
    unfold saoRenew.loop at h
    obtain ⟨v, hv, h⟩ := bind_ok h
    obtain ⟨s1, pool1, ok⟩ := v
    dsimp only at h
    rw [ih _ _ _ h, renewOne_flt _ _ _ _ _ _ _ _ _ _ _ hv]

@[grind →] theorem saoRenew_flt (e : Env) (s s' : State) (c p : Addr) (sv : Bool) (sd : Did) (dur : Nat) (to : Int) (data : List Bytes)
    (oks : List Bool) (h : saoRenew e s c p sv sd dur to data = .ok (s', oks)) : fltPart s' = fltPart s := by
  unfold saoRenew at h
  dsimp only at h
  split at h
  · exact (throw_bind_ne h).elim
  split at h
  · exact (throw_bind_ne h).elim
  split at h
  · exact (throw_bind_ne h).elim
  split at h
  · exact (throw_bind_ne h).elim
  split at h
  · exact saoRenewLoop_flt _ _ _ _ _ _ _ _ _ _ _ _ h
  · cases h

/-! ### Migrate -/
@[grind →] theorem migrateOrderLoop_flt (s0 : State) (p : Addr) (l : List Nat) (commits : List Bytes) (st s' : State)
    (h : migrateOrderLoop s0 p l commits st = .ok s') : fltPart s' = fltPart st := by
  induction l generalizing commits st with
  | nil =>
    unfold migrateOrderLoop at h
    simp only [pure, Except.pure, Except.ok.injEq] at h
    rw [← h]
  | cons oid t ih =>
    unfold migrateOrderLoop at h
    split at h
    · exact ih _ _ h
    · split at h
      · exact ih _ _ h
      · (try dsimp only at h)
        split at h
        · exact ih _ _ h
        · split at h
          · exact ih _ _ h
          · (try dsimp only at h)
            split at h
            · exact ih _ _ h
            · obtain ⟨v, hv, h⟩ := bind_ok h
              obtain ⟨st1, sps⟩ := v
              dsimp only at h
              split at h
              · rw [ih _ _ h, randomSP_flt _ _ _ _ _ _ hv]
              · rw [ih _ _ h, setOrder_flt, appendShard_flt, randomSP_flt _ _ _ _ _ _ hv]

@[grind →] theorem saoMigrateLoop_flt (s0 : State) (p : Addr) (l : List Bytes) (st s' : State)
    (h : saoMigrate.loop s0 p l st = .ok s') : fltPart s' = fltPart st := by
  induction l generalizing st with
  | nil =>
    unfold saoMigrate.loop at h
    simp only [pure, Except.pure, Except.ok.injEq] at h
    rw [← h]
  | cons d t ih =>
    unfold saoMigrate.loop at h
    split at h
    · exact ih _ h
    · obtain ⟨v, hv, h⟩ := bind_ok h
      rw [ih _ h, migrateOrderLoop_flt _ _ _ _ _ _ hv]

@[grind →] theorem saoMigrate_flt (s s' : State) (c p : Addr) (data : List Bytes) (h : saoMigrate s c p data = .ok s') :
    fltPart s' = fltPart s := by
  unfold saoMigrate at h
  split at h
  · exact (throw_bind_ne h).elim
  · exact saoMigrateLoop_flt _ _ _ _ _ h

/-! ### permission, timeout and expiry handlers -/
@[grind →] theorem saoPermission_flt (s s' : State) (c p : Addr) (ow : Did) (d : Bytes) (ro rw : List Did) (sv : Bool)
    (h : saoPermission s c p ow d ro rw sv = .ok s') : fltPart s' = fltPart s := by
  unfold saoPermission at h
  dsimp only at h
  split at h
  · exact (throw_bind_ne h).elim
  split at h
  · exact (throw_bind_ne h).elim
  split at h
  · exact (throw_bind_ne h).elim
  split at h
  · exact (throw_bind_ne h).elim
  have := softTx'_ok h
  rw [← this, updatePermission_flt]

@[grind =] theorem timeoutSettle_flt (s : State) (o : Order) (v : TimeoutView) : fltPart (timeoutSettle s o v) = fltPart s := by
  unfold timeoutSettle
  dsimp only
  split
  · rw [setOrder_flt, foldl_removeShard_flt]
  · rw [foldl_removeShard_flt]

@[grind →] theorem timeoutGiveUp_flt (e : Env) (s s' : State) (o : Order) (v : TimeoutView) (oid : Nat)
    (h : timeoutGiveUp e s o v oid = .ok s') : fltPart s' = fltPart s := by
  unfold timeoutGiveUp at h
  split at h
  · obtain ⟨x, hx, h⟩ := bind_ok h
    obtain ⟨s1, er⟩ := x
    simp only [pure, Except.pure, Except.ok.injEq] at h
    rw [← h, cancelOrder_flt _ _ _ _ _ hx, foldl_removeShard_flt]
  · dsimp only at h
    split at h
    · cases h
    · split at h
      · split at h
        · cases h
        · simp only [pure, Except.pure, Except.ok.injEq] at h
          rw [← h, setOrder_flt]
          split
          · split
            · rename_i s2 hs2; rw [send_flt _ _ _ _ _ hs2, foldl_removeShard_flt]
            · rw [foldl_removeShard_flt]
          · rw [foldl_removeShard_flt]
      · simp only [pure, Except.pure, Except.ok.injEq] at h
        rw [← h, setOrder_flt, foldl_removeShard_flt]

@[grind →] theorem timeoutReassign_flt (s s' : State) (o : Order) (v : TimeoutView) (sps : List Node)
    (h : timeoutReassign s o v sps = .ok s') : fltPart s' = fltPart s := by
  unfold timeoutReassign at h
  split at h
  · cases h
  · dsimp only at h
    simp only [pure, Except.pure, Except.ok.injEq] at h
    rw [← h, setTimeoutOrderBlock_flt, setOrder_flt]
    have gen : ∀ (l : List (Node × Shard)) (acc : Order × State),
        fltPart (l.foldl (fun (acc : Order × State) (x : Node × Shard) =>
          let s := acc.2.setShard { x.2 with status := ShardTimeout }
          let (nsh, s) := newShardTask s acc.1 x.1.creator
          ({ acc.1 with shards := acc.1.shards ++ [nsh.id] }, s)) acc).2 = fltPart acc.2 := by
      intro l
      induction l with
      | nil => intro acc; rfl
      | cons a t ih => intro acc; simp only [List.foldl_cons]; rw [ih]; rfl
    exact gen _ (o, s)

@[grind →] theorem handleTimeoutOrder_flt (e : Env) (s s' : State) (oid : Nat) (h : handleTimeoutOrder e s oid = .ok s') :
    fltPart s' = fltPart s := by
  unfold handleTimeoutOrder at h
  split at h
  · simp only [pure, Except.pure, Except.ok.injEq] at h; rw [← h]
  · split at h
    · split at h
      · rename_i s1 x hc
        simp only [pure, Except.pure, Except.ok.injEq] at h
        rw [← h]; exact cancelOrder_flt _ _ _ _ _ hc
      · cases h
    · dsimp only at h
      split at h
      · simp only [pure, Except.pure, Except.ok.injEq] at h; rw [← h, timeoutSettle_flt]
      · split at h
        · cases h
        · rename_i s1 sps hsel
          have hs1 : fltPart s1 = fltPart s := by
            split at hsel
            · simp only [pure, Except.pure, Except.ok.injEq, Prod.mk.injEq] at hsel; rw [← hsel.1]
            · exact randomSP_flt _ _ _ _ _ _ hsel
          split at h
          · split at h
            · rw [timeoutGiveUp_flt _ _ _ _ _ _ h, hs1]
            · simp only [pure, Except.pure, Except.ok.injEq] at h; rw [← h, setTimeoutOrderBlock_flt, hs1]
          · rw [timeoutReassign_flt _ _ _ _ _ h, hs1]

@[grind →] theorem handleExpiredShard_flt (e : Env) (s s' : State) (id : Nat) (h : handleExpiredShard e s id = .ok s') :
    fltPart s' = fltPart s := by
  unfold handleExpiredShard at h
  split at h
  · rename_i sh hsh
    split at h
    · rename_i o ho
      dsimp only at h
      obtain ⟨v, hv, h⟩ := bind_ok h
      have hv' : fltPart v = fltPart s := by
        split at hv
        · obtain ⟨x, hx, hv⟩ := bind_ok hv
          obtain ⟨s1, er⟩ := x
          simp only [pure, Except.pure, Except.ok.injEq] at hv
          rw [← hv, removeShard_flt, shardRelease_flt _ _ _ _ _ _ hx, workerRelease_flt]
        · simp only [pure, Except.pure, Except.ok.injEq] at hv
          rw [← hv, workerAppend_flt, setShard_flt, setExpiredShardBlock_flt, workerRelease_flt]
      split at h
      · split at h
        · simp only [pure, Except.pure, Except.ok.injEq] at h; rw [← h, removeOrder_flt, hv']
        · simp only [pure, Except.pure, Except.ok.injEq] at h; rw [← h, hv']
      · simp only [pure, Except.pure, Except.ok.injEq] at h; rw [← h, setOrder_flt, hv']
    · simp only [pure, Except.pure, Except.ok.injEq] at h; rw [← h]
  · simp only [pure, Except.pure, Except.ok.injEq] at h; rw [← h]

/-! ### end-blockers -/
theorem foldlM_flt {α : Type} (f : State → α → TxM State) (hf : ∀ s a s', f s a = .ok s' → fltPart s' = fltPart s)
    (l : List α) (s s' : State) (h : l.foldlM f s = .ok s') : fltPart s' = fltPart s := by
  induction l generalizing s with
  | nil => simp only [List.foldlM, pure, Except.pure, Except.ok.injEq] at h; rw [← h]
  | cons a t ih =>
    simp only [List.foldlM] at h
    obtain ⟨v, hv, h⟩ := bind_ok h
    rw [ih _ h, hf _ _ _ hv]

@[grind =] theorem nodeEndBlock_flt (s : State) : fltPart (nodeEndBlock s) = fltPart s := rfl

@[grind =] theorem modelEndBlock_flt (s : State) : fltPart (modelEndBlock s) = fltPart s := by
  unfold modelEndBlock
  dsimp only
  split
  · rfl
  · show fltPart (List.foldl _ s _) = fltPart s
    apply foldl_flt
    intro s a
    repeat' split
    all_goals (first | rfl | exact deleteMeta_flt _ _)

@[grind →] theorem saoEndBlock_flt (e : Env) (s s' : State) (h : saoEndBlock e s = .ok s') : fltPart s' = fltPart s := by
  unfold saoEndBlock at h
  dsimp only at h
  obtain ⟨v, hv, h⟩ := bind_ok h
  have hv' : fltPart v = fltPart s := by
    split at hv
    · obtain ⟨w, hw, hv⟩ := bind_ok hv
      simp only [pure, Except.pure, Except.ok.injEq] at hv
      rw [← hv]
      have := foldlM_flt _ (fun s a s' h => handleTimeoutOrder_flt e s s' a h) _ _ _ hw
      rw [← this]; rfl
    · simp only [pure, Except.pure, Except.ok.injEq] at hv; rw [← hv]
  split at h
  · obtain ⟨w, hw, h⟩ := bind_ok h
    simp only [pure, Except.pure, Except.ok.injEq] at h
    rw [← h]
    have := foldlM_flt _ (fun s a s' h => handleExpiredShard_flt e s s' a h) _ _ _ hw
    rw [← hv', ← this]; rfl
  · simp only [pure, Except.pure, Except.ok.injEq] at h; rw [← h, hv']

@[grind →] theorem endBlock_flt (e : Env) (s s' : State) (h : endBlock e s = .ok s') : fltPart s' = fltPart s := by
  unfold endBlock at h
  obtain ⟨v, hv, h⟩ := bind_ok h
  simp only [pure, Except.pure, Except.ok.injEq] at h
  rw [← h, modelEndBlock_flt, nodeEndBlock_flt, saoEndBlock_flt _ _ _ hv]

/-! ### Store -/
@[grind →] theorem storePlace_flt (e : Env) (s s' : State) (m : StoreMsg) (o : Order) (pa : Option Addr) (ip : Bool) (a b : Bytes)
    (h : storePlace e s m o pa ip a b = .ok s') : fltPart s' = fltPart s := by
  unfold storePlace at h
  (try dsimp only at h)
  obtain ⟨v, hv, h⟩ := bind_ok h
  obtain ⟨s1, sps⟩ := v
  (try dsimp only at h)
  obtain ⟨amount, _, h⟩ := bind_ok h
  obtain ⟨payer, _, h⟩ := bind_ok h
  split at h
  · exact (throw_bind_ne h).elim
  obtain ⟨s2, hs2, h⟩ := bind_ok h
  (try dsimp only at h)
  have hs1 : fltPart s1 = fltPart s := by
    split at hv
    · exact getSps_flt _ _ _ _ _ hv
    · simp only [pure, Except.pure, Except.ok.injEq, Prod.mk.injEq] at hv; rw [← hv.1]
  rw [storeAttach_flt _ _ _ _ _ _ h]
  split
  · rw [setTimeoutOrderBlock_flt, newOrder_flt, sendLit_flt _ _ _ _ _ hs2, hs1]
  · rw [newOrder_flt, sendLit_flt _ _ _ _ _ hs2, hs1]

@[grind →] theorem saoStore_flt (e : Env) (s s' : State) (m : StoreMsg) (h : saoStore e s m = .ok s') : fltPart s' = fltPart s := by
  unfold saoStore at h
  obtain ⟨g, _, h⟩ := bind_ok h
  exact storePlace_flt _ _ _ _ _ _ _ _ _ h

end SaoVerif
