import SaoVerif.Proofs.Frames
/-!
# The write footprint of the storage, market, model and node code

`fixedPart s` collects what no storage / market / model / node *message handler* and no *end-blocker* ever writes:
the bank supply, the node parameters, height and selection seed, the whole DID registry and the staking view.
For every function of the model that transforms the state, `fixedPart` of the result equals `fixedPart` of the
argument (lemmas `*_fixed`), by the same traversal as the code: primitives first, then keepers, then handlers.
The property theorems built on this are in `Properties/Footprint.lean`.
-/
namespace SaoVerif

def fixedPart (s : State) : Int × NodeParams × Int × Nat × DidState × StakingView :=
  (s.supply, s.params, s.h, s.seed, s.did, s.staking)

/-! ### primitives (record updates of other fields): by `rfl` -/
@[simp] theorem setOrder_fixed (s : State) (o : Order) : fixedPart (s.setOrder o) = fixedPart s := rfl
@[simp] theorem removeOrder_fixed (s : State) (i : Nat) : fixedPart (s.removeOrder i) = fixedPart s := rfl
@[simp] theorem appendOrder_fixed (s : State) (o : Order) : fixedPart (s.appendOrder o).2 = fixedPart s := rfl
@[simp] theorem setShard_fixed (s : State) (x : Shard) : fixedPart (s.setShard x) = fixedPart s := rfl
@[simp] theorem removeShard_fixed (s : State) (i : Nat) : fixedPart (s.removeShard i) = fixedPart s := rfl
@[simp] theorem appendShard_fixed (s : State) (x : Shard) : fixedPart (s.appendShard x).2 = fixedPart s := rfl
@[simp] theorem setMeta_fixed (s : State) (m : Metadata) : fixedPart (s.setMeta m) = fixedPart s := rfl
@[simp] theorem removeMeta_fixed (s : State) (d : Bytes) : fixedPart (s.removeMeta d) = fixedPart s := rfl
@[simp] theorem setModel_fixed (s : State) (m : ModelEntry) : fixedPart (s.setModel m) = fixedPart s := rfl
@[simp] theorem removeModel_fixed (s : State) (k : ModelKey) : fixedPart (s.removeModel k) = fixedPart s := rfl
@[simp] theorem setNode_fixed (e : Env) (s : State) (n : Node) : fixedPart (s.setNode e n) = fixedPart s := rfl
@[simp] theorem setPledge_fixed (s : State) (p : Pledge) : fixedPart (s.setPledge p) = fixedPart s := rfl
@[simp] theorem setWorker_fixed (s : State) (w : Worker) : fixedPart (s.setWorker w) = fixedPart s := rfl
@[simp] theorem setDebt_fixed (s : State) (a : Addr) (d : Int) : fixedPart (s.setDebt a d) = fixedPart s := rfl
@[simp] theorem removeDebt_fixed (s : State) (a : Addr) : fixedPart (s.removeDebt a) = fixedPart s := rfl
@[simp] theorem setBal_fixed (s : State) (a : Addr) (v : Int) : fixedPart (s.setBal a v) = fixedPart s := rfl
@[simp] theorem setDataExpireBlock_fixed (s : State) (d : Bytes) (a : Nat) : fixedPart (setDataExpireBlock s d a) = fixedPart s := rfl
@[simp] theorem setTimeoutOrderBlock_fixed (s : State) (i a : Nat) : fixedPart (setTimeoutOrderBlock s i a) = fixedPart s := rfl
@[simp] theorem setExpiredShardBlock_fixed (s : State) (i a : Nat) : fixedPart (setExpiredShardBlock s i a) = fixedPart s := rfl

theorem send_fixed (s s' : State) (a b : Addr) (x : Int) (h : s.send a b x = .ok s') : fixedPart s' = fixedPart s := by
  unfold State.send at h
  split at h
  · cases h
  · split at h
    · cases h
    · simp only [pure, Except.pure, Except.ok.injEq] at h; subst h; rfl

theorem sendLit_fixed (s s' : State) (a b : Addr) (x : Int) (h : s.sendLit a b x = .ok s') : fixedPart s' = fixedPart s := by
  unfold State.sendLit at h
  split at h
  · cases h
  · exact send_fixed _ _ _ _ _ h

theorem removeDataExpireBlock_fixed (s s' : State) (d : Bytes) (a : Nat) (h : removeDataExpireBlock s d a = .ok s') :
    fixedPart s' = fixedPart s := by
  unfold removeDataExpireBlock at h
  split at h
  · simp only [pure, Except.pure, Except.ok.injEq] at h; subst h; rfl
  · split at h
    · cases h
    · simp only at h
      split at h <;> (simp only [pure, Except.pure, Except.ok.injEq] at h; subst h; rfl)

/-! ### market -/
theorem workerRelease_fixed (s : State) (o : Order) (sh : Shard) : fixedPart (workerRelease s o sh).1 = fixedPart s := by
  unfold workerRelease; split <;> rfl

@[simp] theorem workerAppend_fixed (s : State) (o : Order) (sh : Shard) : fixedPart (workerAppend s o sh) = fixedPart s := rfl

theorem marketDeposit_fixed (e : Env) (s s' : State) (o : Order) (x : Option String)
    (h : marketDeposit e s o = .ok (s', x)) : fixedPart s' = fixedPart s := by
  unfold marketDeposit at h
  split at h
  · simp only [pure, Except.pure, Except.ok.injEq, Prod.mk.injEq] at h; rw [← h.1]
  · split at h
    · simp only [pure, Except.pure, Except.ok.injEq, Prod.mk.injEq] at h; rw [← h.1]
    · rename_i s1 hs
      simp only [pure, Except.pure, Except.ok.injEq, Prod.mk.injEq] at h; rw [← h.1]
      exact send_fixed _ _ _ _ _ hs

theorem withdrawLoop_fixed (o : Order) (l : List Nat) (s : State) (r : Dec) : fixedPart (withdrawLoop o l s r).1 = fixedPart s := by
  induction l generalizing s r with
  | nil => rfl
  | cons id t ih =>
    unfold withdrawLoop
    split
    · exact ih _ _
    · split
      · exact ih _ _
      · simp only
        split
        · split
          · rename_i sh _ _ _ _ s1 m hw
            have := workerRelease_fixed s o sh
            rw [hw] at this
            exact this
          · rename_i sh _ _ _ _ s1 hw
            rw [ih]
            have := workerRelease_fixed s o sh
            rw [hw] at this
            exact this
        · split
          · exact ih _ _
          · split <;> exact ih _ _

end SaoVerif

namespace SaoVerif
attribute [grind →] send_fixed sendLit_fixed removeDataExpireBlock_fixed marketDeposit_fixed
attribute [grind =] setOrder_fixed removeOrder_fixed appendOrder_fixed setShard_fixed removeShard_fixed appendShard_fixed
  setMeta_fixed removeMeta_fixed setModel_fixed removeModel_fixed setNode_fixed setPledge_fixed setWorker_fixed setDebt_fixed
  removeDebt_fixed setBal_fixed setDataExpireBlock_fixed setTimeoutOrderBlock_fixed setExpiredShardBlock_fixed workerAppend_fixed
  workerRelease_fixed withdrawLoop_fixed

/-- `fixedPart` of a state written as a record literal (`{ s with pool := … }` elaborates to one) -/
@[grind =] theorem fixedPart_mk (h : Int) (seed : Nat) (bank : Map Addr Int) (supply : Int) (orders : List Order) (orderCount : Option Nat)
    (shards : List Shard) (shardCount : Nat) (metas : List Metadata) (models : List ModelEntry) (expiredData : Map Nat (List Bytes))
    (timeoutQ : Map Nat (List Nat)) (expiredShardQ : Map Nat (List Nat)) (nodes : List Node) (nodeRound : Option Nat)
    (pledges : List Pledge) (debts : Map Addr Int) (pool : Option Pool) (params : NodeParams) (faults : List Fault)
    (faultIdx : List FaultIdx) (fishing : List ((Nat × Nat) × Dec)) (workers : List Worker) (did : DidState) (staking : StakingView) :
    fixedPart { h := h, seed := seed, bank := bank, supply := supply, orders := orders, orderCount := orderCount, shards := shards,
                shardCount := shardCount, metas := metas, models := models, expiredData := expiredData, timeoutQ := timeoutQ,
                expiredShardQ := expiredShardQ, nodes := nodes, nodeRound := nodeRound, pledges := pledges, debts := debts, pool := pool,
                params := params, faults := faults, faultIdx := faultIdx, fishing := fishing, workers := workers, did := did,
                staking := staking } = (supply, params, h, seed, did, staking) := rfl

theorem fixedPart_def (s : State) : fixedPart s = (s.supply, s.params, s.h, s.seed, s.did, s.staking) := rfl

/-- unfold-free finishing tactic: split every `if`/`match` of the hypothesis, drop the failing branches, and let
    `grind` chain the footprint lemmas of the callees along each successful path -/
macro "fixed_auto" h:ident : tactic => `(tactic| (
  simp only [bind, Except.bind, pure, Except.pure, throw, throwThe, MonadExceptOf.throw] at $h:ident
  repeat' (split at $h:ident)
  all_goals (first | cases $h:ident | skip)
  all_goals (try simp only [Except.ok.injEq, Prod.mk.injEq] at $h:ident)
  all_goals (first | grind | (simp only [fixedPart_def, State.setOrder, State.removeOrder, State.setShard, State.removeShard, State.setMeta,
      State.removeMeta, State.setModel, State.removeModel, State.setNode, State.setPledge, State.setWorker, State.setDebt,
      State.removeDebt, State.setBal]; grind [fixedPart_def]))))

@[grind →] theorem marketWithdraw_fixed (e : Env) (s s' : State) (o : Order) (x : Int × Option String)
    (h : marketWithdraw e s o = .ok (s', x)) : fixedPart s' = fixedPart s := by
  unfold marketWithdraw at h
  fixed_auto h

@[grind =] theorem marketMigrate_fixed (s : State) (o : Order) (a b : Shard) : fixedPart (marketMigrate s o a b).1 = fixedPart s := by
  unfold marketMigrate
  split <;> grind

/-! ### node -/
@[grind →] theorem nodeCreate_fixed (e : Env) (s s' : State) (c : Addr) (h : nodeCreate e s c = .ok s') : fixedPart s' = fixedPart s := by
  unfold nodeCreate at h
  fixed_auto h

@[grind →] theorem nodeReset_fixed (e : Env) (s s' : State) (m : ResetMsg) (h : nodeReset e s m = .ok s') : fixedPart s' = fixedPart s := by
  unfold nodeReset at h
  fixed_auto h

@[grind →] theorem promoteIfDue_fixed (e : Env) (s s' : State) (c : Addr) (p : Pledge) (h : promoteIfDue e s c p = .ok s') :
    fixedPart s' = fixedPart s := by
  unfold promoteIfDue at h
  fixed_auto h

@[grind →] theorem demoteIfDue_fixed (e : Env) (s s' : State) (c : Addr) (p : Pledge) (h : demoteIfDue e s c p = .ok s') :
    fixedPart s' = fixedPart s := by
  unfold demoteIfDue at h
  fixed_auto h

@[grind →] theorem nodeAddVstorage_fixed (e : Env) (s s' : State) (c : Addr) (n : Nat) (h : nodeAddVstorage e s c n = .ok s') :
    fixedPart s' = fixedPart s := by
  unfold nodeAddVstorage at h
  fixed_auto h

@[grind →] theorem nodeRemoveVstorage_fixed (e : Env) (s s' : State) (c : Addr) (n : Nat) (h : nodeRemoveVstorage e s c n = .ok s') :
    fixedPart s' = fixedPart s := by
  unfold nodeRemoveVstorage at h
  fixed_auto h

@[grind =] theorem repayPledgeDebt_fixed (s : State) (sp : Addr) (l : List Int) : fixedPart (repayPledgeDebt s sp l).1 = fixedPart s := by
  unfold repayPledgeDebt
  repeat' split
  all_goals grind

@[grind →] theorem marketClaim_fixed (s s' : State) (sp : Addr) (x : Int) (h : marketClaim s sp = .ok (s', x)) : fixedPart s' = fixedPart s := by
  unfold marketClaim at h
  fixed_auto h

@[grind →] theorem shardRelease_fixed (e : Env) (s s' : State) (sp : Addr) (sh : Option Shard) (x : Option String)
    (h : shardRelease e s sp sh = .ok (s', x)) : fixedPart s' = fixedPart s := by
  unfold shardRelease at h
  fixed_auto h

@[grind →] theorem shardPledge_fixed (e : Env) (s s' : State) (sh : Shard) (up : Dec) (x : Option String)
    (h : shardPledge e s sh up = .ok (s', x)) : fixedPart s' = fixedPart s := by
  unfold shardPledge at h
  fixed_auto h

@[grind →] theorem nodeClaimReward_fixed (e : Env) (s s' : State) (c : Addr) (x : Int)
    (h : nodeClaimReward e s c = .ok (s', x)) : fixedPart s' = fixedPart s := by
  unfold nodeClaimReward at h
  fixed_auto h

/-! ### order / model keepers -/
@[grind =] theorem newShardTask_fixed (s : State) (o : Order) (sp : Addr) : fixedPart (newShardTask s o sp).2 = fixedPart s := rfl

@[grind =] theorem generateShards_fixed (s : State) (o : Order) (sps : List Addr) : fixedPart (generateShards s o sps).2 = fixedPart s := by
  unfold generateShards
  have gen : ∀ (l : List Addr) (acc : Order × State),
      fixedPart (l.foldl (fun (acc : Order × State) sp =>
        let (sh, s') := newShardTask acc.2 acc.1 sp
        ({ acc.1 with shards := acc.1.shards ++ [sh.id] }, s')) acc).2 = fixedPart acc.2 := by
    intro l
    induction l with
    | nil => intro acc; rfl
    | cons a t ih => intro acc; simp only [List.foldl_cons]; rw [ih]; rfl
  exact gen sps (o, s)

@[grind =] theorem newOrder_fixed (s : State) (o : Order) (sps : List Addr) : fixedPart (newOrder s o sps).2 = fixedPart s := by
  unfold newOrder
  simp only
  rw [setOrder_fixed, generateShards_fixed]
  rfl

@[grind =] theorem renewOrder_fixed (e : Env) (s : State) (o : Order) : fixedPart (renewOrder e s o).1 = fixedPart s := by
  unfold renewOrder
  repeat' split
  all_goals (first | rfl | grind)

@[grind →] theorem sendToDidBalances_fixed (s s' : State) (d : Did) (a : Int) (h : sendToDidBalances s d a = .ok s') : s' = s := by
  unfold sendToDidBalances at h
  split at h
  · simp only [pure, Except.pure, Except.ok.injEq] at h; exact h.symm
  · cases h

@[grind →] theorem orderTerminate_fixed (e : Env) (s s' : State) (oid : Nat) (r : Int) (x : Option String)
    (h : orderTerminate e s oid r = .ok (s', x)) : fixedPart s' = fixedPart s := by
  unfold orderTerminate at h
  fixed_auto h

@[grind =] theorem refundOrder_fixed (e : Env) (s : State) (oid : Nat) : fixedPart (refundOrder e s oid).1 = fixedPart s := by
  unfold refundOrder
  repeat' split
  all_goals (first | rfl | grind)

@[grind →] theorem resetMetaDuration_fixed (s s' : State) (m m' : Metadata) (h : resetMetaDuration s m = .ok (s', m')) :
    fixedPart s' = fixedPart s := by
  unfold resetMetaDuration at h
  fixed_auto h

@[grind →] theorem extendMetaDuration_fixed (s s' : State) (d : Bytes) (a : Nat) (h : extendMetaDuration s d a = .ok s') :
    fixedPart s' = fixedPart s := by
  unfold extendMetaDuration at h
  fixed_auto h

@[grind =] theorem deleteMeta_fixed (s : State) (d : Bytes) : fixedPart (deleteMeta s d).1 = fixedPart s := by
  unfold deleteMeta
  split <;> rfl

@[grind →] theorem terminateRel_fixed (e : Env) (o : Order) (l : List Nat) (s s' : State) (x : Option String)
    (h : modelTerminateOrder.rel e o l s = .ok (s', x)) : fixedPart s' = fixedPart s := by
  induction l generalizing s with
  | nil =>
    unfold modelTerminateOrder.rel at h
    simp only [pure, Except.pure, Except.ok.injEq, Prod.mk.injEq] at h
    rw [← h.1]
  | cons id t ih =>
    unfold modelTerminateOrder.rel at h
    split at h
    · exact ih _ h
    · split at h
      · simp only [bind, Except.bind, pure, Except.pure] at h
        split at h
        · cases h
        · rename_i y hy
          obtain ⟨s1, er⟩ := y
          simp only at h
          split at h
          · simp only [Except.ok.injEq, Prod.mk.injEq] at h; rw [← h.1]; exact shardRelease_fixed _ _ _ _ _ _ hy
          · rw [ih _ h]; exact shardRelease_fixed _ _ _ _ _ _ hy
      · exact ih _ h

@[grind →] theorem modelTerminateOrder_fixed (e : Env) (s s' : State) (o : Order) (x : Option String)
    (h : modelTerminateOrder e s o = .ok (s', x)) : fixedPart s' = fixedPart s := by
  unfold modelTerminateOrder at h
  fixed_auto h

@[grind →] theorem rollbackMeta_fixed (s s' : State) (d : Bytes) (h : rollbackMeta s d = .ok s') : fixedPart s' = fixedPart s := by
  unfold rollbackMeta at h
  fixed_auto h

@[grind →] theorem cancelOrder_fixed (e : Env) (s s' : State) (oid : Nat) (x : Option String)
    (h : cancelOrder e s oid = .ok (s', x)) : fixedPart s' = fixedPart s := by
  unfold cancelOrder at h
  fixed_auto h

@[grind →] theorem updateMetaStatusAndCommit_fixed (s s' : State) (o : Order) (x : Option String)
    (h : updateMetaStatusAndCommit s o = .ok (s', x)) : fixedPart s' = fixedPart s := by
  unfold updateMetaStatusAndCommit at h
  fixed_auto h

@[grind =] theorem newMeta_fixed (s : State) (o : Order) (m : Metadata) : fixedPart (newMeta s o m).1 = fixedPart s := by
  unfold newMeta
  repeat' split
  all_goals rfl

@[grind =] theorem updatePermission_fixed (s : State) (ow : Did) (d : Bytes) (ro rw : List Did) :
    fixedPart (updatePermission s ow d ro rw).1 = fixedPart s := by
  unfold updatePermission
  repeat' split
  all_goals rfl

@[grind =] theorem foldl_removeShard_fixed (ids : List Nat) (s : State) :
    fixedPart (ids.foldl (fun s id => s.removeShard id) s) = fixedPart s := by
  induction ids generalizing s with
  | nil => rfl
  | cons a t ih => simp only [List.foldl_cons]; rw [ih]; rfl

@[grind →] theorem updateMetaLoop_fixed (e : Env) (lc : Bytes) (fuel : Nat) (s s' : State) (orders shardSet : List Nat)
    (x : List Nat × List Nat × Option String)
    (h : updateMeta.loop e lc fuel s orders shardSet = .ok (s', x)) : fixedPart s' = fixedPart s := by
  induction fuel generalizing s orders shardSet with
  | zero =>
    unfold updateMeta.loop at h
    simp only [pure, Except.pure, Except.ok.injEq, Prod.mk.injEq] at h
    rw [← h.1]
  | succ n ih =>
    unfold updateMeta.loop at h
    split at h
    · simp only [pure, Except.pure, Except.ok.injEq, Prod.mk.injEq] at h; rw [← h.1]
    · split at h
      · simp only [pure, Except.pure, Except.ok.injEq, Prod.mk.injEq] at h; rw [← h.1]
      · split at h
        · simp only [pure, Except.pure, Except.ok.injEq, Prod.mk.injEq] at h; rw [← h.1]
        · simp only [bind, Except.bind, pure, Except.pure] at h
          split at h
          · cases h
          · rename_i y hy
            obtain ⟨s1, er⟩ := y
            simp only at h
            split at h
            · simp only [Except.ok.injEq, Prod.mk.injEq] at h; rw [← h.1]; exact modelTerminateOrder_fixed _ _ _ _ _ hy
            · rw [ih _ _ _ h]; exact modelTerminateOrder_fixed _ _ _ _ _ hy

@[grind →] theorem updateMeta_fixed (e : Env) (s s' : State) (o : Order) (x : Option String)
    (h : updateMeta e s o = .ok (s', x)) : fixedPart s' = fixedPart s := by
  unfold updateMeta at h
  fixed_auto h

/-! ### sao handlers -/
@[grind →] theorem getSps_fixed (s s' : State) (o : Order) (d : Bytes) (sps : List Node) (h : getSps s o d = .ok (s', sps)) :
    fixedPart s' = fixedPart s := by
  have := getSps_round _ _ _ _ _ h
  unfold sameButRound at this
  rw [this]; rfl

@[grind →] theorem randomSP_fixed (s s' : State) (c : Int) (ig : List Addr) (sz : Int) (sps : List Node)
    (h : randomSP s c ig sz = .ok (s', sps)) : fixedPart s' = fixedPart s := by
  have := randomSP_round _ _ _ _ _ _ h
  unfold sameButRound at this
  rw [this]; rfl

@[grind →] theorem storeAttach_fixed (s s' : State) (m : StoreMsg) (o : Order) (a b : Bytes) (h : storeAttach s m o a b = .ok s') :
    fixedPart s' = fixedPart s := by
  unfold storeAttach softTx softTx' at h
  fixed_auto h

@[grind →] theorem saoReadyBody_fixed (s s' : State) (o : Order) (h : saoReadyBody s o = .ok s') : fixedPart s' = fixedPart s := by
  unfold saoReadyBody at h
  fixed_auto h

@[grind →] theorem saoReady_fixed (s s' : State) (c p : Addr) (oid : Nat) (h : saoReady s c p oid = .ok s') : fixedPart s' = fixedPart s := by
  unfold saoReady at h
  fixed_auto h

@[grind =] theorem increaseReputation_fixed (e : Env) (s : State) (a : Addr) (v : Int) : fixedPart (increaseReputation e s a v) = fixedPart s := by
  unfold increaseReputation
  split <;> rfl

@[grind →] theorem cancelLoop_fixed (e : Env) (l : List Nat) (s s' : State) (h : saoCancelBody.loop e l s = .ok s') :
    fixedPart s' = fixedPart s := by
  induction l generalizing s with
  | nil => unfold saoCancelBody.loop at h; simp only [pure, Except.pure, Except.ok.injEq] at h; rw [← h]
  | cons id t ih =>
    unfold saoCancelBody.loop softTx at h
    simp only [bind, Except.bind, pure, Except.pure, throw, throwThe, MonadExceptOf.throw] at h
    split at h
    · split at h
      · cases h
      · rename_i v hv
        rw [ih _ h, removeShard_fixed]
        repeat' (split at hv)
        all_goals (first | cases hv | skip)
        all_goals (try simp only [Except.ok.injEq] at hv)
        all_goals grind
    · cases h

@[grind →] theorem saoCancelBody_fixed (e : Env) (s s' : State) (o : Order) (oid : Nat) (h : saoCancelBody e s o oid = .ok s') :
    fixedPart s' = fixedPart s := by
  unfold saoCancelBody softTx at h
  fixed_auto h

@[grind →] theorem saoCancel_fixed (e : Env) (s s' : State) (c p : Addr) (oid : Nat) (h : saoCancel e s c p oid = .ok s') :
    fixedPart s' = fixedPart s := by
  unfold saoCancel at h
  fixed_auto h

theorem foldl_fixed {α : Type} (f : State → α → State) (hf : ∀ s a, fixedPart (f s a) = fixedPart s) (l : List α) (s : State) :
    fixedPart (l.foldl f s) = fixedPart s := by
  induction l generalizing s with
  | nil => rfl
  | cons a t ih => simp only [List.foldl_cons]; rw [ih, hf]

/-! ### inversion of the transaction monad (kernel-cheap alternative to `split` on large handlers) -/
theorem bind_ok {α β : Type} {x : TxM α} {f : α → TxM β} {b : β} (h : (x >>= f) = .ok b) : ∃ a, x = .ok a ∧ f a = .ok b := by
  cases x with
  | error e => cases h
  | ok a => exact ⟨a, rfl, h⟩

theorem throw_bind_ne {α β : Type} {m : String} {f : α → TxM β} {b : β} (h : ((throw m : TxM α) >>= f) = .ok b) : False := by
  cases h

theorem softTx_ok {α : Type} {r : TxM (α × Option String)} {a : α} (h : softTx r = .ok a) : r = .ok (a, none) := by
  unfold softTx at h
  obtain ⟨x, hx, h⟩ := bind_ok h
  obtain ⟨a', er⟩ := x
  cases er with
  | some m => cases h
  | none => simp only [pure, Except.pure, Except.ok.injEq] at h; rw [hx, h]

theorem softTx'_ok {α : Type} {r : α × Option String} {a : α} (h : softTx' r = .ok a) : r.1 = a := by
  unfold softTx' at h
  split at h
  · cases h
  · simp only [pure, Except.pure, Except.ok.injEq] at h; exact h

end SaoVerif
