import SaoVerif.Properties.C15
/-! Frame lemmas: the provider selection changes nothing but the super-node cursor. -/
namespace SaoVerif

/-- everything except the super-node cursor is left alone by the selection -/
def sameButRound (s s' : State) : Prop := s' = { s with nodeRound := s'.nodeRound }

theorem pickSuper_round (s0 s' : State) (r0 : Nat) (ignore : List Addr) (size : Int) (o : Option Node)
    (h : pickSuper s0 r0 ST_SELECT 8000 ignore size = (s', o)) : sameButRound s0 s' := by
  unfold pickSuper at h
  simp only at h
  split at h
  · simp at h; obtain ⟨h1, _⟩ := h; subst h1; simp [sameButRound]
  · simp at h; obtain ⟨h1, _⟩ := h; subst h1; simp [sameButRound]

theorem getNextSuperNode_round (s s' : State) (ignore : List Addr) (size : Int) (o : Option Node)
    (h : getNextSuperNode s ST_SELECT 8000 ignore size = (s', o)) : sameButRound s s' := by
  unfold getNextSuperNode at h
  split at h
  · have := pickSuper_round _ _ _ _ _ _ h
    unfold sameButRound at *
    rw [this]
  · exact pickSuper_round _ _ _ _ _ _ h

theorem randomSPWith_state (s s' : State) (sup : Option Node) (count : Int) (ignore : List Addr) (size : Int) (sps : List Node)
    (h : randomSPWith s sup count ignore size = .ok (s', sps)) : s' = s := by
  unfold randomSPWith at h
  split at h
  · split at h
    · simp only [pure, Except.pure, Except.ok.injEq, Prod.mk.injEq] at h; exact h.1.symm
    · split at h
      · simp only [pure, Except.pure, Except.ok.injEq, Prod.mk.injEq] at h; exact h.1.symm
      · simp only [bind, Except.bind, pure, Except.pure] at h
        split at h
        · cases h
        · simp only [Except.ok.injEq, Prod.mk.injEq] at h; exact h.1.symm
  · split at h
    · simp only [pure, Except.pure, Except.ok.injEq, Prod.mk.injEq] at h; exact h.1.symm
    · simp only [bind, Except.bind, pure, Except.pure] at h
      split at h
      · cases h
      · simp only [Except.ok.injEq, Prod.mk.injEq] at h; exact h.1.symm

theorem randomSP_round (s s' : State) (count : Int) (ignore : List Addr) (size : Int) (sps : List Node)
    (h : randomSP s count ignore size = .ok (s', sps)) : sameButRound s s' := by
  unfold randomSP at h
  generalize hg : getNextSuperNode s ST_SELECT 8000 ignore size = r at h
  obtain ⟨s1, sup⟩ := r
  simp only at h
  have h1 := getNextSuperNode_round _ _ _ _ _ hg
  have h2 := randomSPWith_state _ _ _ _ _ _ _ h
  rw [h2]; exact h1

theorem getSps_round (s s' : State) (o : Order) (d : Bytes) (sps : List Node)
    (h : getSps s o d = .ok (s', sps)) : sameButRound s s' := by
  unfold getSps at h
  simp only [bind, Except.bind, pure, Except.pure] at h
  split at h
  · split at h
    · cases h
    · rename_i x hx
      obtain ⟨s1, l⟩ := x
      simp only at h
      split at h
      · cases h
      · simp only [Except.ok.injEq, Prod.mk.injEq] at h
        rw [← h.1]; exact randomSP_round _ _ _ _ _ _ hx
  · split at h
    · split at h
      · cases h
      · split at h
        · cases h
        · rename_i x hx
          obtain ⟨s1, l⟩ := x
          simp only at h
          split at h
          · cases h
          · simp only [Except.ok.injEq, Prod.mk.injEq] at h
            rw [← h.1]
            split at hx
            · simp only [Except.ok.injEq, Prod.mk.injEq] at hx; rw [← hx.1]; simp [sameButRound]
            · split at hx
              · split at hx
                · cases hx
                · rename_i y hy
                  obtain ⟨s2, l2⟩ := y
                  simp only [Except.ok.injEq, Prod.mk.injEq] at hx
                  rw [← hx.1]; exact randomSP_round _ _ _ _ _ _ hy
              · simp only [Except.ok.injEq, Prod.mk.injEq] at hx; rw [← hx.1]; simp [sameButRound]
    · cases h
end SaoVerif
