import SaoVerif.Proofs.Fixed2
import SaoVerif.Properties.C06
/-!
# The ledger: transfers neither create nor destroy coins

`ledPart s` = (sum of all account balances) − (recorded supply). Every function of the model that transforms the state
leaves it exactly as it was: all of them move coins through `send` / `sendLit` (which debit one account and credit another by
the same amount) or, in the begin-blocker, `mint` (which credits an account and the supply by the same amount); nothing writes
a balance in any other way. The lemmas follow `Proofs/Fixed.lean` function by function.
`Properties/C06Ledger.lean` lifts this to operations and histories.
-/
namespace SaoVerif

/-- the sum of all balances of the bank slice -/
def bankTotal (m : Map Addr Int) : Int := (m.map (·.2)).sum

def ledPart (s : State) : Int := bankTotal s.bank - s.supply

theorem bankTotal_set (m : Map Addr Int) (k : Addr) (v : Int) :
    bankTotal (Map.set m k v) = bankTotal m - (Map.find? m k).getD 0 + v := by
  induction m with
  | nil => simp [Map.set, bankTotal, Map.find?]
  | cons x t ih =>
    obtain ⟨k', v'⟩ := x
    unfold Map.set Map.find?
    split
    · simp only [bankTotal, List.map_cons, List.sum_cons, Option.getD_some]; omega
    · simp only [bankTotal, List.map_cons, List.sum_cons] at ih ⊢; omega

theorem ledPart_setBal (s : State) (a : Addr) (v : Int) : ledPart (s.setBal a v) = ledPart s - s.bal a + v := by
  unfold ledPart State.setBal State.bal
  simp only
  rw [bankTotal_set]
  omega

theorem send_led (s s' : State) (a b : Addr) (x : Int) (h : s.send a b x = .ok s') : ledPart s' = ledPart s := by
  unfold State.send at h
  split at h
  · cases h
  · split at h
    · cases h
    · simp only [pure, Except.pure, Except.ok.injEq] at h
      subst h
      rw [ledPart_setBal, ledPart_setBal]
      by_cases hab : b = a
      · subst hab; rw [bal_setBal_self]; omega
      · rw [bal_setBal_other _ _ _ _ hab]; omega

theorem mint_led (s : State) (a : Addr) (x : Int) : ledPart (s.mint a x) = ledPart s := by
  unfold State.mint
  show bankTotal (s.setBal a (s.bal a + x)).bank - (s.supply + x) = ledPart s
  have := ledPart_setBal s a (s.bal a + x)
  unfold ledPart at this ⊢
  have h2 : (s.setBal a (s.bal a + x)).supply = s.supply := rfl
  rw [h2] at this
  omega


@[simp] theorem setOrder_led (s : State) (o : Order) : ledPart (s.setOrder o) = ledPart s := rfl
@[simp] theorem removeOrder_led (s : State) (i : Nat) : ledPart (s.removeOrder i) = ledPart s := rfl
@[simp] theorem appendOrder_led (s : State) (o : Order) : ledPart (s.appendOrder o).2 = ledPart s := rfl
@[simp] theorem setShard_led (s : State) (x : Shard) : ledPart (s.setShard x) = ledPart s := rfl
@[simp] theorem removeShard_led (s : State) (i : Nat) : ledPart (s.removeShard i) = ledPart s := rfl
@[simp] theorem appendShard_led (s : State) (x : Shard) : ledPart (s.appendShard x).2 = ledPart s := rfl
@[simp] theorem setMeta_led (s : State) (m : Metadata) : ledPart (s.setMeta m) = ledPart s := rfl
@[simp] theorem removeMeta_led (s : State) (d : Bytes) : ledPart (s.removeMeta d) = ledPart s := rfl
@[simp] theorem setModel_led (s : State) (m : ModelEntry) : ledPart (s.setModel m) = ledPart s := rfl
@[simp] theorem removeModel_led (s : State) (k : ModelKey) : ledPart (s.removeModel k) = ledPart s := rfl
@[simp] theorem setNode_led (e : Env) (s : State) (n : Node) : ledPart (s.setNode e n) = ledPart s := rfl
@[simp] theorem setPledge_led (s : State) (p : Pledge) : ledPart (s.setPledge p) = ledPart s := rfl
@[simp] theorem setWorker_led (s : State) (w : Worker) : ledPart (s.setWorker w) = ledPart s := rfl
@[simp] theorem setDebt_led (s : State) (a : Addr) (d : Int) : ledPart (s.setDebt a d) = ledPart s := rfl
@[simp] theorem removeDebt_led (s : State) (a : Addr) : ledPart (s.removeDebt a) = ledPart s := rfl
@[simp] theorem setDataExpireBlock_led (s : State) (d : Bytes) (a : Nat) : ledPart (setDataExpireBlock s d a) = ledPart s := rfl
@[simp] theorem setTimeoutOrderBlock_led (s : State) (i a : Nat) : ledPart (setTimeoutOrderBlock s i a) = ledPart s := rfl
@[simp] theorem setExpiredShardBlock_led (s : State) (i a : Nat) : ledPart (setExpiredShardBlock s i a) = ledPart s := rfl

theorem sendLit_led (s s' : State) (a b : Addr) (x : Int) (h : s.sendLit a b x = .ok s') : ledPart s' = ledPart s := by
  unfold State.sendLit at h
  split at h
  · cases h
  · exact send_led _ _ _ _ _ h

theorem removeDataExpireBlock_led (s s' : State) (d : Bytes) (a : Nat) (h : removeDataExpireBlock s d a = .ok s') :
    ledPart s' = ledPart s := by
  unfold removeDataExpireBlock at h
  split at h
  · simp only [pure, Except.pure, Except.ok.injEq] at h; subst h; rfl
  · split at h
    · cases h
    · simp only at h
      split at h <;> (simp only [pure, Except.pure, Except.ok.injEq] at h; subst h; rfl)

/-! ### market -/
theorem workerRelease_led (s : State) (o : Order) (sh : Shard) : ledPart (workerRelease s o sh).1 = ledPart s := by
  unfold workerRelease; split <;> rfl

@[simp] theorem workerAppend_led (s : State) (o : Order) (sh : Shard) : ledPart (workerAppend s o sh) = ledPart s := rfl

theorem marketDeposit_led (e : Env) (s s' : State) (o : Order) (x : Option String)
    (h : marketDeposit e s o = .ok (s', x)) : ledPart s' = ledPart s := by
  unfold marketDeposit at h
  split at h
  · simp only [pure, Except.pure, Except.ok.injEq, Prod.mk.injEq] at h; rw [← h.1]
  · split at h
    · simp only [pure, Except.pure, Except.ok.injEq, Prod.mk.injEq] at h; rw [← h.1]
    · rename_i s1 hs
      simp only [pure, Except.pure, Except.ok.injEq, Prod.mk.injEq] at h; rw [← h.1]
      exact send_led _ _ _ _ _ hs

theorem withdrawLoop_led (o : Order) (l : List Nat) (s : State) (r : Dec) : ledPart (withdrawLoop o l s r).1 = ledPart s := by
  induction l generalizing s r with
  | nil => rfl
  | cons id t ih =>
    unfold withdrawLoop
    split
    · exact ih _ _
    · split
      · exact ih _ _
      · simp only
        split
        · split
          · rename_i sh _ _ _ _ s1 m hw
            have := workerRelease_led s o sh
            rw [hw] at this
            exact this
          · rename_i sh _ _ _ _ s1 hw
            rw [ih]
            have := workerRelease_led s o sh
            rw [hw] at this
            exact this
        · split
          · exact ih _ _
          · split <;> exact ih _ _

attribute [grind →] send_led sendLit_led removeDataExpireBlock_led marketDeposit_led
attribute [grind =] setOrder_led removeOrder_led appendOrder_led setShard_led removeShard_led appendShard_led
  setMeta_led removeMeta_led setModel_led removeModel_led setNode_led setPledge_led setWorker_led setDebt_led
  removeDebt_led setDataExpireBlock_led setTimeoutOrderBlock_led setExpiredShardBlock_led workerAppend_led
  workerRelease_led withdrawLoop_led

@[grind =] theorem ledPart_mk (h : Int) (seed : Nat) (bank : Map Addr Int) (supply : Int) (orders : List Order) (orderCount : Option Nat)
    (shards : List Shard) (shardCount : Nat) (metas : List Metadata) (models : List ModelEntry) (expiredData : Map Nat (List Bytes))
    (timeoutQ : Map Nat (List Nat)) (expiredShardQ : Map Nat (List Nat)) (nodes : List Node) (nodeRound : Option Nat)
    (pledges : List Pledge) (debts : Map Addr Int) (pool : Option Pool) (params : NodeParams) (faults : List Fault)
    (faultIdx : List FaultIdx) (fishing : List ((Nat × Nat) × Dec)) (workers : List Worker) (did : DidState) (staking : StakingView) :
    ledPart { h := h, seed := seed, bank := bank, supply := supply, orders := orders, orderCount := orderCount, shards := shards,
                shardCount := shardCount, metas := metas, models := models, expiredData := expiredData, timeoutQ := timeoutQ,
                expiredShardQ := expiredShardQ, nodes := nodes, nodeRound := nodeRound, pledges := pledges, debts := debts, pool := pool,
                params := params, faults := faults, faultIdx := faultIdx, fishing := fishing, workers := workers, did := did,
                staking := staking } = bankTotal bank - supply := rfl

theorem ledPart_def (s : State) : ledPart s = bankTotal s.bank - s.supply := rfl

macro "led_auto" h:ident : tactic => `(tactic| (
  simp only [bind, Except.bind, pure, Except.pure, throw, throwThe, MonadExceptOf.throw] at $h:ident
  repeat' (split at $h:ident)
  all_goals (first | cases $h:ident | skip)
  all_goals (try simp only [Except.ok.injEq, Prod.mk.injEq] at $h:ident)
  all_goals (first | grind | (simp only [ledPart_def, State.setOrder, State.removeOrder, State.setShard, State.removeShard, State.setMeta,
      State.removeMeta, State.setModel, State.removeModel, State.setNode, State.setPledge, State.setWorker, State.setDebt,
      State.removeDebt, State.setMeta]; grind [ledPart_def]))))


@[grind →] theorem marketWithdraw_led (e : Env) (s s' : State) (o : Order) (x : Int × Option String)
    (h : marketWithdraw e s o = .ok (s', x)) : ledPart s' = ledPart s := by
  unfold marketWithdraw at h
  led_auto h

@[grind =] theorem marketMigrate_led (s : State) (o : Order) (a b : Shard) : ledPart (marketMigrate s o a b).1 = ledPart s := by
  unfold marketMigrate
  split <;> grind

/-! ### node -/
@[grind →] theorem nodeCreate_led (e : Env) (s s' : State) (c : Addr) (h : nodeCreate e s c = .ok s') : ledPart s' = ledPart s := by
  unfold nodeCreate at h
  led_auto h

@[grind →] theorem nodeReset_led (e : Env) (s s' : State) (m : ResetMsg) (h : nodeReset e s m = .ok s') : ledPart s' = ledPart s := by
  unfold nodeReset at h
  led_auto h

@[grind →] theorem promoteIfDue_led (e : Env) (s s' : State) (c : Addr) (p : Pledge) (h : promoteIfDue e s c p = .ok s') :
    ledPart s' = ledPart s := by
  unfold promoteIfDue at h
  led_auto h

@[grind →] theorem demoteIfDue_led (e : Env) (s s' : State) (c : Addr) (p : Pledge) (h : demoteIfDue e s c p = .ok s') :
    ledPart s' = ledPart s := by
  unfold demoteIfDue at h
  led_auto h

@[grind →] theorem nodeAddVstorage_led (e : Env) (s s' : State) (c : Addr) (n : Nat) (h : nodeAddVstorage e s c n = .ok s') :
    ledPart s' = ledPart s := by
  unfold nodeAddVstorage at h
  led_auto h

@[grind →] theorem nodeRemoveVstorage_led (e : Env) (s s' : State) (c : Addr) (n : Nat) (h : nodeRemoveVstorage e s c n = .ok s') :
    ledPart s' = ledPart s := by
  unfold nodeRemoveVstorage at h
  led_auto h

@[grind =] theorem repayPledgeDebt_led (s : State) (sp : Addr) (l : List Int) : ledPart (repayPledgeDebt s sp l).1 = ledPart s := by
  unfold repayPledgeDebt
  repeat' split
  all_goals grind

@[grind →] theorem marketClaim_led (s s' : State) (sp : Addr) (x : Int) (h : marketClaim s sp = .ok (s', x)) : ledPart s' = ledPart s := by
  unfold marketClaim at h
  led_auto h

@[grind →] theorem shardRelease_led (e : Env) (s s' : State) (sp : Addr) (sh : Option Shard) (x : Option String)
    (h : shardRelease e s sp sh = .ok (s', x)) : ledPart s' = ledPart s := by
  unfold shardRelease at h
  led_auto h

@[grind →] theorem shardPledge_led (e : Env) (s s' : State) (sh : Shard) (up : Dec) (x : Option String)
    (h : shardPledge e s sh up = .ok (s', x)) : ledPart s' = ledPart s := by
  unfold shardPledge at h
  led_auto h

@[grind →] theorem nodeClaimReward_led (e : Env) (s s' : State) (c : Addr) (x : Int)
    (h : nodeClaimReward e s c = .ok (s', x)) : ledPart s' = ledPart s := by
  unfold nodeClaimReward at h
  led_auto h

/-! ### order / model keepers -/
@[grind =] theorem newShardTask_led (s : State) (o : Order) (sp : Addr) : ledPart (newShardTask s o sp).2 = ledPart s := rfl

@[grind =] theorem generateShards_led (s : State) (o : Order) (sps : List Addr) : ledPart (generateShards s o sps).2 = ledPart s := by
  unfold generateShards
  have gen : ∀ (l : List Addr) (acc : Order × State),
      ledPart (l.foldl (fun (acc : Order × State) sp =>
        let (sh, s') := newShardTask acc.2 acc.1 sp
        ({ acc.1 with shards := acc.1.shards ++ [sh.id] }, s')) acc).2 = ledPart acc.2 := by
    intro l
    induction l with
    | nil => intro acc; rfl
    | cons a t ih => intro acc; simp only [List.foldl_cons]; rw [ih]; rfl
  exact gen sps (o, s)

@[grind =] theorem newOrder_led (s : State) (o : Order) (sps : List Addr) : ledPart (newOrder s o sps).2 = ledPart s := by
  unfold newOrder
  simp only
  rw [setOrder_led, generateShards_led]
  rfl

@[grind =] theorem renewOrder_led (e : Env) (s : State) (o : Order) : ledPart (renewOrder e s o).1 = ledPart s := by
  unfold renewOrder
  repeat' split
  all_goals (first | rfl | grind)

@[grind →] theorem sendToDidBalances_led (s s' : State) (d : Did) (a : Int) (h : sendToDidBalances s d a = .ok s') : s' = s := by
  unfold sendToDidBalances at h
  split at h
  · simp only [pure, Except.pure, Except.ok.injEq] at h; exact h.symm
  · cases h

@[grind →] theorem orderTerminate_led (e : Env) (s s' : State) (oid : Nat) (r : Int) (x : Option String)
    (h : orderTerminate e s oid r = .ok (s', x)) : ledPart s' = ledPart s := by
  unfold orderTerminate at h
  led_auto h

@[grind =] theorem refundOrder_led (e : Env) (s : State) (oid : Nat) : ledPart (refundOrder e s oid).1 = ledPart s := by
  unfold refundOrder
  repeat' split
  all_goals (first | rfl | grind)

@[grind →] theorem resetMetaDuration_led (s s' : State) (m m' : Metadata) (h : resetMetaDuration s m = .ok (s', m')) :
    ledPart s' = ledPart s := by
  unfold resetMetaDuration at h
  led_auto h

@[grind →] theorem extendMetaDuration_led (s s' : State) (d : Bytes) (a : Nat) (h : extendMetaDuration s d a = .ok s') :
    ledPart s' = ledPart s := by
  unfold extendMetaDuration at h
  led_auto h

@[grind =] theorem deleteMeta_led (s : State) (d : Bytes) : ledPart (deleteMeta s d).1 = ledPart s := by
  unfold deleteMeta
  split <;> rfl

@[grind →] theorem terminateRel_led (e : Env) (o : Order) (l : List Nat) (s s' : State) (x : Option String)
    (h : modelTerminateOrder.rel e o l s = .ok (s', x)) : ledPart s' = ledPart s := by
  induction l generalizing s with
  | nil =>
    unfold modelTerminateOrder.rel at h
    simp only [pure, Except.pure, Except.ok.injEq, Prod.mk.injEq] at h
    rw [← h.1]
  | cons id t ih =>
    unfold modelTerminateOrder.rel at h
    split at h
    · exact ih _ h
    · split at h
      · simp only [bind, Except.bind, pure, Except.pure] at h
        split at h
        · cases h
        · rename_i y hy
          obtain ⟨s1, er⟩ := y
          simp only at h
          split at h
          · simp only [Except.ok.injEq, Prod.mk.injEq] at h; rw [← h.1]; exact shardRelease_led _ _ _ _ _ _ hy
          · rw [ih _ h]; exact shardRelease_led _ _ _ _ _ _ hy
      · exact ih _ h

@[grind →] theorem modelTerminateOrder_led (e : Env) (s s' : State) (o : Order) (x : Option String)
    (h : modelTerminateOrder e s o = .ok (s', x)) : ledPart s' = ledPart s := by
  unfold modelTerminateOrder at h
  led_auto h

@[grind →] theorem rollbackMeta_led (s s' : State) (d : Bytes) (h : rollbackMeta s d = .ok s') : ledPart s' = ledPart s := by
  unfold rollbackMeta at h
  led_auto h

@[grind →] theorem cancelOrder_led (e : Env) (s s' : State) (oid : Nat) (x : Option String)
    (h : cancelOrder e s oid = .ok (s', x)) : ledPart s' = ledPart s := by
  unfold cancelOrder at h
  led_auto h

@[grind →] theorem updateMetaStatusAndCommit_led (s s' : State) (o : Order) (x : Option String)
    (h : updateMetaStatusAndCommit s o = .ok (s', x)) : ledPart s' = ledPart s := by
  unfold updateMetaStatusAndCommit at h
  led_auto h

@[grind =] theorem newMeta_led (s : State) (o : Order) (m : Metadata) : ledPart (newMeta s o m).1 = ledPart s := by
  unfold newMeta
  repeat' split
  all_goals rfl

@[grind =] theorem updatePermission_led (s : State) (ow : Did) (d : Bytes) (ro rw : List Did) :
    ledPart (updatePermission s ow d ro rw).1 = ledPart s := by
  unfold updatePermission
  repeat' split
  all_goals rfl

@[grind =] theorem foldl_removeShard_led (ids : List Nat) (s : State) :
    ledPart (ids.foldl (fun s id => s.removeShard id) s) = ledPart s := by
  induction ids generalizing s with
  | nil => rfl
  | cons a t ih => simp only [List.foldl_cons]; rw [ih]; rfl

@[grind →] theorem updateMetaLoop_led (e : Env) (lc : Bytes) (fuel : Nat) (s s' : State) (orders shardSet : List Nat)
    (x : List Nat × List Nat × Option String)
    (h : updateMeta.loop e lc fuel s orders shardSet = .ok (s', x)) : ledPart s' = ledPart s := by
  induction fuel generalizing s orders shardSet with
  | zero =>
    unfold updateMeta.loop at h
    simp only [pure, Except.pure, Except.ok.injEq, Prod.mk.injEq] at h
    rw [← h.1]
  | succ n ih =>
    unfold updateMeta.loop at h
    split at h
    · simp only [pure, Except.pure, Except.ok.injEq, Prod.mk.injEq] at h; rw [← h.1]
    · split at h
      · simp only [pure, Except.pure, Except.ok.injEq, Prod.mk.injEq] at h; rw [← h.1]
      · split at h
        · simp only [pure, Except.pure, Except.ok.injEq, Prod.mk.injEq] at h; rw [← h.1]
        · simp only [bind, Except.bind, pure, Except.pure] at h
          split at h
          · cases h
          · rename_i y hy
            obtain ⟨s1, er⟩ := y
            simp only at h
            split at h
            · simp only [Except.ok.injEq, Prod.mk.injEq] at h; rw [← h.1]; exact modelTerminateOrder_led _ _ _ _ _ hy
            · rw [ih _ _ _ h]; exact modelTerminateOrder_led _ _ _ _ _ hy

@[grind →] theorem updateMeta_led (e : Env) (s s' : State) (o : Order) (x : Option String)
    (h : updateMeta e s o = .ok (s', x)) : ledPart s' = ledPart s := by
  unfold updateMeta at h
  led_auto h

/-! ### sao handlers -/
@[grind →] theorem getSps_led (s s' : State) (o : Order) (d : Bytes) (sps : List Node) (h : getSps s o d = .ok (s', sps)) :
    ledPart s' = ledPart s := by
  have := getSps_round _ _ _ _ _ h
  unfold sameButRound at this
  rw [this]; rfl

@[grind →] theorem randomSP_led (s s' : State) (c : Int) (ig : List Addr) (sz : Int) (sps : List Node)
    (h : randomSP s c ig sz = .ok (s', sps)) : ledPart s' = ledPart s := by
  have := randomSP_round _ _ _ _ _ _ h
  unfold sameButRound at this
  rw [this]; rfl

@[grind →] theorem storeAttach_led (s s' : State) (m : StoreMsg) (o : Order) (a b : Bytes) (h : storeAttach s m o a b = .ok s') :
    ledPart s' = ledPart s := by
  unfold storeAttach softTx softTx' at h
  led_auto h

@[grind →] theorem saoReadyBody_led (s s' : State) (o : Order) (h : saoReadyBody s o = .ok s') : ledPart s' = ledPart s := by
  unfold saoReadyBody at h
  led_auto h

@[grind →] theorem saoReady_led (s s' : State) (c p : Addr) (oid : Nat) (h : saoReady s c p oid = .ok s') : ledPart s' = ledPart s := by
  unfold saoReady at h
  led_auto h

@[grind =] theorem increaseReputation_led (e : Env) (s : State) (a : Addr) (v : Int) : ledPart (increaseReputation e s a v) = ledPart s := by
  unfold increaseReputation
  split <;> rfl

@[grind →] theorem cancelLoop_led (e : Env) (l : List Nat) (s s' : State) (h : saoCancelBody.loop e l s = .ok s') :
    ledPart s' = ledPart s := by
  induction l generalizing s with
  | nil => unfold saoCancelBody.loop at h; simp only [pure, Except.pure, Except.ok.injEq] at h; rw [← h]
  | cons id t ih =>
    unfold saoCancelBody.loop softTx at h
    simp only [bind, Except.bind, pure, Except.pure, throw, throwThe, MonadExceptOf.throw] at h
    split at h
    · split at h
      · cases h
      · rename_i v hv
        rw [ih _ h, removeShard_led]
        repeat' (split at hv)
        all_goals (first | cases hv | skip)
        all_goals (try simp only [Except.ok.injEq] at hv)
        all_goals grind
    · cases h

@[grind →] theorem saoCancelBody_led (e : Env) (s s' : State) (o : Order) (oid : Nat) (h : saoCancelBody e s o oid = .ok s') :
    ledPart s' = ledPart s := by
  unfold saoCancelBody softTx at h
  led_auto h

@[grind →] theorem saoCancel_led (e : Env) (s s' : State) (c p : Addr) (oid : Nat) (h : saoCancel e s c p oid = .ok s') :
    ledPart s' = ledPart s := by
  unfold saoCancel at h
  led_auto h

theorem foldl_led {α : Type} (f : State → α → State) (hf : ∀ s a, ledPart (f s a) = ledPart s) (l : List α) (s : State) :
    ledPart (l.foldl f s) = ledPart s := by
  induction l generalizing s with
  | nil => rfl
  | cons a t ih => simp only [List.foldl_cons]; rw [ih, hf]

@[grind →] theorem completeMigration_led (e : Env) (s s' : State) (o : Order) (sh : Shard) (x : Order × Shard × Order)
    (h : completeMigration e s o sh = .ok (s', x)) : ledPart s' = ledPart s := by
  unfold completeMigration softTx softTx' at h
  simp only [bind, Except.bind, pure, Except.pure, throw, throwThe, MonadExceptOf.throw] at h
  split at h
  · cases h
  · split at h
    · cases h
    · rename_i v hv
      have hv' : ledPart v = ledPart s := by
        split at hv
        · cases hv
        · rename_i w hw
          split at hv
          · cases hv
          · simp only [Except.ok.injEq] at hv
            rw [← hv]
            exact shardRelease_led _ _ _ _ _ _ hw
      split at h
      · split at h
        · cases h
        · rename_i v2 hv2
          have hv2' : ledPart v2 = ledPart v := by
            split at hv2
            · cases hv2
            · simp only [Except.ok.injEq] at hv2
              rw [← hv2]
              exact marketMigrate_led _ _ _ _
          simp only [Except.ok.injEq, Prod.mk.injEq] at h
          rw [← h.1, foldl_led _ (by intro s a; split <;> rfl)]
          split <;> simp [hv2', hv']
      · cases h

@[grind →] theorem completeFresh_led (e : Env) (s s' : State) (o : Order) (sh : Shard) (x : Order × Shard × Order)
    (h : completeFresh e s o sh = .ok (s', x)) : ledPart s' = ledPart s := by
  unfold completeFresh softTx at h
  simp only [bind, Except.bind, pure, Except.pure, throw, throwThe, MonadExceptOf.throw] at h
  split at h
  · split at h
    · cases h
    · rename_i v hv
      have hv' : ledPart v = ledPart s := by
        split at hv
        · cases hv
        · rename_i w hw
          split at hv
          · cases hv
          · simp only [Except.ok.injEq] at hv
            rw [← hv, updateMeta_led _ _ _ _ _ hw]; rfl
      split at h
      · cases h
      · rename_i v2 hv2
        have hv2' : ledPart v2 = ledPart v := by
          split at hv2
          · cases hv2
          · rename_i w hw
            split at hv2
            · cases hv2
            · simp only [Except.ok.injEq] at hv2
              rw [← hv2]; exact marketDeposit_led _ _ _ _ _ hw
        simp only [Except.ok.injEq, Prod.mk.injEq] at h
        rw [← h.1, hv2', hv']
  · simp only [Except.ok.injEq, Prod.mk.injEq] at h
    rw [← h.1]; rfl

@[grind →] theorem completeTail_led (e : Env) (s s' : State) (md : Metadata) (o : Order) (sh : Shard) (ip : Order) (p : Addr) (cid : StrId)
    (h : completeTail e s md o sh ip p cid = .ok s') : ledPart s' = ledPart s := by
  unfold completeTail at h
  obtain ⟨v, hv, h⟩ := bind_ok h
  obtain ⟨v2, hv2, h⟩ := bind_ok h
  dsimp only at h
  split at h
  · exact (throw_bind_ne h).elim
  simp only [pure, Except.pure, Except.ok.injEq] at h
  rw [← h, setOrder_led, increaseReputation_led, shardPledge_led _ _ _ _ _ _ (softTx_ok hv2), extendMetaDuration_led _ _ _ _ hv]
  rfl

@[grind →] theorem saoCompleteBody_led (e : Env) (s s' : State) (p : Addr) (oid sz : Nat) (ok : Bool) (cid : StrId)
    (h : saoCompleteBody e s p oid sz ok cid = .ok s') : ledPart s' = ledPart s := by
  unfold saoCompleteBody at h
  obtain ⟨g, _, h⟩ := bind_ok h
  obtain ⟨o, sh, md⟩ := g
  dsimp only at h
  obtain ⟨v, hv, h⟩ := bind_ok h
  obtain ⟨s1, o1, sh1, ip⟩ := v
  dsimp only at h
  rw [completeTail_led _ _ _ _ _ _ _ _ _ h]
  split at hv
  · exact completeMigration_led _ _ _ _ _ _ hv
  · exact completeFresh_led _ _ _ _ _ _ hv

@[grind →] theorem saoComplete_led (e : Env) (s s' : State) (c p : Addr) (oid sz : Nat) (ok : Bool) (cid : StrId)
    (h : saoComplete e s c p oid sz ok cid = .ok s') : ledPart s' = ledPart s := by
  unfold saoComplete at h
  split at h
  · cases h
  · exact saoCompleteBody_led _ _ _ _ _ _ _ _ h

/-! ### Terminate -/
@[grind →] theorem terminateLoop_led (e : Env) (l : List Nat) (s s' : State) (set set' : List Nat)
    (h : saoTerminate.loop e l s set = .ok (s', set')) : ledPart s' = ledPart s := by
  induction l generalizing s set with
  | nil =>
    unfold saoTerminate.loop at h
    simp only [pure, Except.pure, Except.ok.injEq, Prod.mk.injEq] at h
    rw [← h.1]
  | cons oid t ih =>
    unfold saoTerminate.loop at h
    split at h
    · exact ih _ _ h
    · obtain ⟨v, hv, h⟩ := bind_ok h
      rw [ih _ _ h, modelTerminateOrder_led _ _ _ _ _ (softTx_ok hv)]

@[grind →] theorem saoTerminate_led (e : Env) (s s' : State) (c p : Addr) (ow : Did) (d : Bytes) (sv : Bool) (sd : Did)
    (h : saoTerminate e s c p ow d sv sd = .ok s') : ledPart s' = ledPart s := by
  unfold saoTerminate at h
  dsimp only at h
  split at h
  · exact (throw_bind_ne h).elim
  split at h
  · exact (throw_bind_ne h).elim
  split at h
  · rename_i md hmd
    split at h
    · exact (throw_bind_ne h).elim
    · obtain ⟨v, hv, h⟩ := bind_ok h
      obtain ⟨s1, set⟩ := v
      dsimp only at h
      have := softTx'_ok h
      rw [← this, deleteMeta_led, foldl_removeShard_led, terminateLoop_led _ _ _ _ _ _ hv]
  · cases h

/-! ### Renew -/
theorem send_or_self_led (s : State) (a b : Addr) (x : Int) :
    ledPart (match s.send a b x with | .ok s' => s' | .error _ => s) = ledPart s := by
  split
  · rename_i s' h; exact send_led _ _ _ _ _ h
  · rfl

theorem sendLit_or_self_led (s : State) (a b : Addr) (x : Int) :
    ledPart (match s.sendLit a b x with | .ok s' => s' | .error _ => s) = ledPart s := by
  split
  · rename_i s' h; exact sendLit_led _ _ _ _ _ h
  · rfl

@[grind →] theorem renewShard_led (e : Env) (s s' : State) (sh : Shard) (oid dur : Nat) (up : Dec) (x : Int × Nat)
    (h : renewShard e s sh oid dur up = .ok (s', x)) : ledPart s' = ledPart s := by
  unfold renewShard at h
  obtain ⟨np, _, h⟩ := bind_ok h
  obtain ⟨v, hv, h⟩ := bind_ok h
  obtain ⟨s1, sh1, chg⟩ := v
  dsimp only at h
  simp only [pure, Except.pure, Except.ok.injEq, Prod.mk.injEq] at h
  rw [← h.1, setShard_led]
  split at hv
  · dsimp only at hv
    split at hv
    · rename_i pl hpl
      simp only [pure, Except.pure, Except.ok.injEq, Prod.mk.injEq] at hv
      rw [← hv.1, setPledge_led]
      split
      · exact send_or_self_led _ _ _ _
      · rw [setDebt_led]; exact sendLit_or_self_led _ _ _ _
    · cases hv
  · simp only [pure, Except.pure, Except.ok.injEq, Prod.mk.injEq] at hv
    rw [← hv.1]

@[grind →] theorem renewLoop_led (e : Env) (dur : Nat) (newO : Order) (l : List Shard) (s s' : State) (chg : Int) (mx : Nat) (x : Int × Nat)
    (h : renewBody.loop e dur newO l s chg mx = .ok (s', x)) : ledPart s' = ledPart s := by
  induction l generalizing s chg mx with
  | nil =>
    unfold renewBody.loop at h
    simp only [pure, Except.pure, Except.ok.injEq, Prod.mk.injEq] at h
    rw [← h.1]
  | cons sh t ih =>
    unfold renewBody.loop at h
    split at h
    · exact ih _ _ _ h
    · obtain ⟨v, hv, h⟩ := bind_ok h
      obtain ⟨s1, c, ex⟩ := v
      dsimp only at h
      rw [ih _ _ _ h, renewShard_led _ _ _ _ _ _ _ _ hv]

@[grind →] theorem renewBody_led (e : Env) (s s' : State) (pool : Pool) (c p : Addr) (dur : Nat) (to : Int) (md : Metadata) (o : Order)
    (shs : List Shard) (x : Pool × Bool) (h : renewBody e s pool c p dur to md o shs = .ok (s', x)) : ledPart s' = ledPart s := by
  unfold renewBody at h
  obtain ⟨amount, _, h⟩ := bind_ok h
  dsimp only at h
  split at h
  · -- the charge failed: this data id is skipped, the state is what renewOrder returned
    simp only [pure, Except.pure, Except.ok.injEq, Prod.mk.injEq] at h
    rw [← h.1, renewOrder_led]
  · obtain ⟨v, hv, h⟩ := bind_ok h
    obtain ⟨s1, c1, mx⟩ := v
    dsimp only at h
    obtain ⟨s2, hs2, h⟩ := bind_ok h
    obtain ⟨v3, hv3, h⟩ := bind_ok h
    obtain ⟨s3, er⟩ := v3
    simp only [pure, Except.pure, Except.ok.injEq, Prod.mk.injEq] at h
    rw [← h.1, updateMeta_led _ _ _ _ _ hv3, extendMetaDuration_led _ _ _ _ hs2, renewLoop_led _ _ _ _ _ _ _ _ _ hv, renewOrder_led]

@[grind →] theorem renewOne_led (e : Env) (s s' : State) (pool : Pool) (c p : Addr) (sd : Did) (dur : Nat) (to : Int) (d : Bytes)
    (x : Pool × Bool) (h : renewOne e s pool c p sd dur to d = .ok (s', x)) : ledPart s' = ledPart s := by
  unfold renewOne at h
  split at h
  · simp only [pure, Except.pure, Except.ok.injEq, Prod.mk.injEq] at h; rw [← h.1]
  · exact renewBody_led _ _ _ _ _ _ _ _ _ _ _ _ h

@[grind →] theorem saoRenewLoop_led (e : Env) (c p : Addr) (sd : Did) (dur : Nat) (to : Int) (l : List Bytes) (s s' : State) (pool : Pool)
    (oks oks' : List Bool) (h : saoRenew.loop e c p sd dur to l s pool oks = .ok (s', oks')) : ledPart s' = ledPart s := by
  induction l generalizing s pool oks with
  | nil =>
    unfold saoRenew.loop at h
    simp only [pure, Except.pure, Except.ok.injEq, Prod.mk.injEq] at h
    rw [← h.1]
  | cons d t ih =>
    unfold saoRenew.loop at h
    obtain ⟨v, hv, h⟩ := bind_ok h
    obtain ⟨s1, pool1, ok⟩ := v
    dsimp only at h
    rw [ih _ _ _ h, renewOne_led _ _ _ _ _ _ _ _ _ _ _ hv]

@[grind →] theorem saoRenew_led (e : Env) (s s' : State) (c p : Addr) (sv : Bool) (sd : Did) (dur : Nat) (to : Int) (data : List Bytes)
    (oks : List Bool) (h : saoRenew e s c p sv sd dur to data = .ok (s', oks)) : ledPart s' = ledPart s := by
  unfold saoRenew at h
  dsimp only at h
  split at h
  · exact (throw_bind_ne h).elim
  split at h
  · exact (throw_bind_ne h).elim
  split at h
  · exact (throw_bind_ne h).elim
  split at h
  · exact (throw_bind_ne h).elim
  split at h
  · exact saoRenewLoop_led _ _ _ _ _ _ _ _ _ _ _ _ h
  · cases h

/-! ### Migrate -/
@[grind →] theorem migrateOrderLoop_led (s0 : State) (p : Addr) (l : List Nat) (commits : List Bytes) (st s' : State)
    (h : migrateOrderLoop s0 p l commits st = .ok s') : ledPart s' = ledPart st := by
  induction l generalizing commits st with
  | nil =>
    unfold migrateOrderLoop at h
    simp only [pure, Except.pure, Except.ok.injEq] at h
    rw [← h]
  | cons oid t ih =>
    unfold migrateOrderLoop at h
    split at h
    · exact ih _ _ h
    · split at h
      · exact ih _ _ h
      · (try dsimp only at h)
        split at h
        · exact ih _ _ h
        · split at h
          · exact ih _ _ h
          · (try dsimp only at h)
            split at h
            · exact ih _ _ h
            · obtain ⟨v, hv, h⟩ := bind_ok h
              obtain ⟨st1, sps⟩ := v
              dsimp only at h
              split at h
              · rw [ih _ _ h, randomSP_led _ _ _ _ _ _ hv]
              · rw [ih _ _ h, setOrder_led, appendShard_led, randomSP_led _ _ _ _ _ _ hv]

@[grind →] theorem saoMigrateLoop_led (s0 : State) (p : Addr) (l : List Bytes) (st s' : State)
    (h : saoMigrate.loop s0 p l st = .ok s') : ledPart s' = ledPart st := by
  induction l generalizing st with
  | nil =>
    unfold saoMigrate.loop at h
    simp only [pure, Except.pure, Except.ok.injEq] at h
    rw [← h]
  | cons d t ih =>
    unfold saoMigrate.loop at h
    split at h
    · exact ih _ h
    · obtain ⟨v, hv, h⟩ := bind_ok h
      rw [ih _ h, migrateOrderLoop_led _ _ _ _ _ _ hv]

@[grind →] theorem saoMigrate_led (s s' : State) (c p : Addr) (data : List Bytes) (h : saoMigrate s c p data = .ok s') :
    ledPart s' = ledPart s := by
  unfold saoMigrate at h
  split at h
  · exact (throw_bind_ne h).elim
  · exact saoMigrateLoop_led _ _ _ _ _ h

/-! ### permission, timeout and expiry handlers -/
@[grind →] theorem saoPermission_led (s s' : State) (c p : Addr) (ow : Did) (d : Bytes) (ro rw : List Did) (sv : Bool)
    (h : saoPermission s c p ow d ro rw sv = .ok s') : ledPart s' = ledPart s := by
  unfold saoPermission at h
  dsimp only at h
  split at h
  · exact (throw_bind_ne h).elim
  split at h
  · exact (throw_bind_ne h).elim
  split at h
  · exact (throw_bind_ne h).elim
  split at h
  · exact (throw_bind_ne h).elim
  have := softTx'_ok h
  rw [← this, updatePermission_led]

@[grind =] theorem timeoutSettle_led (s : State) (o : Order) (v : TimeoutView) : ledPart (timeoutSettle s o v) = ledPart s := by
  unfold timeoutSettle
  dsimp only
  split
  · rw [setOrder_led, foldl_removeShard_led]
  · rw [foldl_removeShard_led]

@[grind →] theorem timeoutGiveUp_led (e : Env) (s s' : State) (o : Order) (v : TimeoutView) (oid : Nat)
    (h : timeoutGiveUp e s o v oid = .ok s') : ledPart s' = ledPart s := by
  unfold timeoutGiveUp at h
  split at h
  · obtain ⟨x, hx, h⟩ := bind_ok h
    obtain ⟨s1, er⟩ := x
    simp only [pure, Except.pure, Except.ok.injEq] at h
    rw [← h, cancelOrder_led _ _ _ _ _ hx, foldl_removeShard_led]
  · dsimp only at h
    split at h
    · cases h
    · split at h
      · split at h
        · cases h
        · simp only [pure, Except.pure, Except.ok.injEq] at h
          rw [← h, setOrder_led]
          split
          · split
            · rename_i s2 hs2; rw [send_led _ _ _ _ _ hs2, foldl_removeShard_led]
            · rw [foldl_removeShard_led]
          · rw [foldl_removeShard_led]
      · simp only [pure, Except.pure, Except.ok.injEq] at h
        rw [← h, setOrder_led, foldl_removeShard_led]

@[grind →] theorem timeoutReassign_led (s s' : State) (o : Order) (v : TimeoutView) (sps : List Node)
    (h : timeoutReassign s o v sps = .ok s') : ledPart s' = ledPart s := by
  unfold timeoutReassign at h
  split at h
  · cases h
  · dsimp only at h
    simp only [pure, Except.pure, Except.ok.injEq] at h
    rw [← h, setTimeoutOrderBlock_led, setOrder_led]
    have gen : ∀ (l : List (Node × Shard)) (acc : Order × State),
        ledPart (l.foldl (fun (acc : Order × State) (x : Node × Shard) =>
          let s := acc.2.setShard { x.2 with status := ShardTimeout }
          let (nsh, s) := newShardTask s acc.1 x.1.creator
          ({ acc.1 with shards := acc.1.shards ++ [nsh.id] }, s)) acc).2 = ledPart acc.2 := by
      intro l
      induction l with
      | nil => intro acc; rfl
      | cons a t ih => intro acc; simp only [List.foldl_cons]; rw [ih]; rfl
    exact gen _ (o, s)

@[grind →] theorem handleTimeoutOrder_led (e : Env) (s s' : State) (oid : Nat) (h : handleTimeoutOrder e s oid = .ok s') :
    ledPart s' = ledPart s := by
  unfold handleTimeoutOrder at h
  split at h
  · simp only [pure, Except.pure, Except.ok.injEq] at h; rw [← h]
  · split at h
    · split at h
      · rename_i s1 x hc
        simp only [pure, Except.pure, Except.ok.injEq] at h
        rw [← h]; exact cancelOrder_led _ _ _ _ _ hc
      · cases h
    · dsimp only at h
      split at h
      · simp only [pure, Except.pure, Except.ok.injEq] at h; rw [← h, timeoutSettle_led]
      · split at h
        · cases h
        · rename_i s1 sps hsel
          have hs1 : ledPart s1 = ledPart s := by
            split at hsel
            · simp only [pure, Except.pure, Except.ok.injEq, Prod.mk.injEq] at hsel; rw [← hsel.1]
            · exact randomSP_led _ _ _ _ _ _ hsel
          split at h
          · split at h
            · rw [timeoutGiveUp_led _ _ _ _ _ _ h, hs1]
            · simp only [pure, Except.pure, Except.ok.injEq] at h; rw [← h, setTimeoutOrderBlock_led, hs1]
          · rw [timeoutReassign_led _ _ _ _ _ h, hs1]

@[grind →] theorem handleExpiredShard_led (e : Env) (s s' : State) (id : Nat) (h : handleExpiredShard e s id = .ok s') :
    ledPart s' = ledPart s := by
  unfold handleExpiredShard at h
  split at h
  · rename_i sh hsh
    split at h
    · rename_i o ho
      dsimp only at h
      obtain ⟨v, hv, h⟩ := bind_ok h
      have hv' : ledPart v = ledPart s := by
        split at hv
        · obtain ⟨x, hx, hv⟩ := bind_ok hv
          obtain ⟨s1, er⟩ := x
          simp only [pure, Except.pure, Except.ok.injEq] at hv
          rw [← hv, removeShard_led, shardRelease_led _ _ _ _ _ _ hx, workerRelease_led]
        · simp only [pure, Except.pure, Except.ok.injEq] at hv
          rw [← hv, workerAppend_led, setShard_led, setExpiredShardBlock_led, workerRelease_led]
      split at h
      · split at h
        · simp only [pure, Except.pure, Except.ok.injEq] at h; rw [← h, removeOrder_led, hv']
        · simp only [pure, Except.pure, Except.ok.injEq] at h; rw [← h, hv']
      · simp only [pure, Except.pure, Except.ok.injEq] at h; rw [← h, setOrder_led, hv']
    · simp only [pure, Except.pure, Except.ok.injEq] at h; rw [← h]
  · simp only [pure, Except.pure, Except.ok.injEq] at h; rw [← h]

/-! ### end-blockers -/
theorem foldlM_led {α : Type} (f : State → α → TxM State) (hf : ∀ s a s', f s a = .ok s' → ledPart s' = ledPart s)
    (l : List α) (s s' : State) (h : l.foldlM f s = .ok s') : ledPart s' = ledPart s := by
  induction l generalizing s with
  | nil => simp only [List.foldlM, pure, Except.pure, Except.ok.injEq] at h; rw [← h]
  | cons a t ih =>
    simp only [List.foldlM] at h
    obtain ⟨v, hv, h⟩ := bind_ok h
    rw [ih _ h, hf _ _ _ hv]

@[grind =] theorem nodeEndBlock_led (s : State) : ledPart (nodeEndBlock s) = ledPart s := rfl

@[grind =] theorem modelEndBlock_led (s : State) : ledPart (modelEndBlock s) = ledPart s := by
  unfold modelEndBlock
  dsimp only
  split
  · rfl
  · show ledPart (List.foldl _ s _) = ledPart s
    apply foldl_led
    intro s a
    repeat' split
    all_goals (first | rfl | exact deleteMeta_led _ _)

@[grind →] theorem saoEndBlock_led (e : Env) (s s' : State) (h : saoEndBlock e s = .ok s') : ledPart s' = ledPart s := by
  unfold saoEndBlock at h
  dsimp only at h
  obtain ⟨v, hv, h⟩ := bind_ok h
  have hv' : ledPart v = ledPart s := by
    split at hv
    · obtain ⟨w, hw, hv⟩ := bind_ok hv
      simp only [pure, Except.pure, Except.ok.injEq] at hv
      rw [← hv]
      have := foldlM_led _ (fun s a s' h => handleTimeoutOrder_led e s s' a h) _ _ _ hw
      rw [← this]; rfl
    · simp only [pure, Except.pure, Except.ok.injEq] at hv; rw [← hv]
  split at h
  · obtain ⟨w, hw, h⟩ := bind_ok h
    simp only [pure, Except.pure, Except.ok.injEq] at h
    rw [← h]
    have := foldlM_led _ (fun s a s' h => handleExpiredShard_led e s s' a h) _ _ _ hw
    rw [← hv', ← this]; rfl
  · simp only [pure, Except.pure, Except.ok.injEq] at h; rw [← h, hv']

@[grind →] theorem endBlock_led (e : Env) (s s' : State) (h : endBlock e s = .ok s') : ledPart s' = ledPart s := by
  unfold endBlock at h
  obtain ⟨v, hv, h⟩ := bind_ok h
  simp only [pure, Except.pure, Except.ok.injEq] at h
  rw [← h, modelEndBlock_led, nodeEndBlock_led, saoEndBlock_led _ _ _ hv]

/-! ### Store -/
@[grind →] theorem storePlace_led (e : Env) (s s' : State) (m : StoreMsg) (o : Order) (pa : Option Addr) (ip : Bool) (a b : Bytes)
    (h : storePlace e s m o pa ip a b = .ok s') : ledPart s' = ledPart s := by
  unfold storePlace at h
  (try dsimp only at h)
  obtain ⟨v, hv, h⟩ := bind_ok h
  obtain ⟨s1, sps⟩ := v
  (try dsimp only at h)
  obtain ⟨amount, _, h⟩ := bind_ok h
  obtain ⟨payer, _, h⟩ := bind_ok h
  split at h
  · exact (throw_bind_ne h).elim
  obtain ⟨s2, hs2, h⟩ := bind_ok h
  (try dsimp only at h)
  have hs1 : ledPart s1 = ledPart s := by
    split at hv
    · exact getSps_led _ _ _ _ _ hv
    · simp only [pure, Except.pure, Except.ok.injEq, Prod.mk.injEq] at hv; rw [← hv.1]
  rw [storeAttach_led _ _ _ _ _ _ h]
  split
  · rw [setTimeoutOrderBlock_led, newOrder_led, sendLit_led _ _ _ _ _ hs2, hs1]
  · rw [newOrder_led, sendLit_led _ _ _ _ _ hs2, hs1]

@[grind →] theorem saoStore_led (e : Env) (s s' : State) (m : StoreMsg) (h : saoStore e s m = .ok s') : ledPart s' = ledPart s := by
  unfold saoStore at h
  obtain ⟨g, _, h⟩ := bind_ok h
  exact storePlace_led _ _ _ _ _ _ _ _ _ h

/-- the outcome of a state transformer leaves the ledger balanced (nothing is claimed about a failure) -/
def okLed (s : State) (r : TxM State) : Prop :=
  match r with
  | .ok s' => ledPart s' = ledPart s
  | .error _ => True

theorem okLed_elim {s s' : State} {r : TxM State} (h : okLed s r) (hr : r = .ok s') : ledPart s' = ledPart s := by
  subst hr; exact h

@[simp] theorem setFault_led (s : State) (f : Fault) : ledPart (s.setFault f) = ledPart s := rfl
@[simp] theorem removeFault_led (s : State) (f : Fault) : ledPart (s.removeFault f) = ledPart s := rfl
@[simp] theorem fishAdd_led (s : State) (k : Nat × Nat) (v : Dec) : ledPart (fishAdd s k v) = ledPart s := by
  unfold fishAdd; split <;> rfl
@[simp] theorem faultBySpShard_led (s : State) (p : Addr) (sh : Nat) : ledPart (s.faultBySpShard p sh).1 = ledPart s := by
  unfold State.faultBySpShard
  repeat' split
  all_goals rfl

theorem reportStep_led (c p : Addr) (s : State) (x : FaultIn × StrId) : ledPart (reportStep c p s x) = ledPart s := by
  unfold reportStep
  dsimp only
  repeat' split
  all_goals (first | rfl | simp)

@[grind →] theorem saoReportFaults_led (s s' : State) (c p : Addr) (fs : List FaultIn) (ids : List StrId)
    (h : saoReportFaults s c p fs ids = .ok s') : ledPart s' = ledPart s := by
  unfold saoReportFaults at h
  split at h
  · cases h
  · split at h
    · cases h
    · simp only [pure, Except.pure, Except.ok.injEq] at h
      rw [← h]
      exact foldl_led _ (reportStep_led c p) _ _

theorem okLed_of_eq {s s1 : State} {r : TxM State} (h : ledPart s1 = ledPart s) (hr : okLed s1 r) : okLed s r := by
  unfold okLed at *
  split
  · rename_i s' _; simp only at hr; rw [hr, h]
  · trivial

theorem recoverSettle_okLed (pool : Pool) (ik : Nat) (s : State) (o : Order) (org fm : Fault) (pl : Pledge) :
    okLed s (recoverSettle pool ik s o org fm pl) := by
  unfold recoverSettle
  dsimp only
  split
  · simp [okLed, throw, throwThe, MonadExceptOf.throw]
  · split
    · simp [okLed, throw, throwThe, MonadExceptOf.throw]
    · simp only [okLed, pure, Except.pure]
      rw [removeFault_led, setPledge_led, foldl_led _ (fun s c => fishAdd_led s _ _), fishAdd_led]
      split <;> rfl

theorem recoverStep_okLed (c p : Addr) (pool : Pool) (ik : Nat) (s : State) (f : FaultIn) :
    okLed s (recoverStep c p pool ik s f) := by
  have hb := faultBySpShard_led s f.provider f.shardId
  unfold recoverStep
  split
  · simp [okLed, pure, Except.pure]
  split
  · simp [okLed, pure, Except.pure]
  split
  · simp [okLed, pure, Except.pure]
  split
  · simp [okLed, pure, Except.pure]
  split
  · simp [okLed, pure, Except.pure]
  -- from here on the state is the one `faultBySpShard` returned
  generalize hq : s.faultBySpShard f.provider f.shardId = q at hb ⊢
  obtain ⟨s1, org?⟩ := q
  (try dsimp only at hb ⊢)
  split
  · simp only [okLed, pure, Except.pure]; exact hb
  split
  · simp only [okLed, pure, Except.pure]; exact hb
  (try dsimp only)
  split
  · simp only [okLed, pure, Except.pure]; exact hb
  · split
    · split
      · exact okLed_of_eq hb (recoverSettle_okLed _ _ _ _ _ _ _)
      · simp only [okLed, pure, Except.pure]; rw [setFault_led]; exact hb
    · simp only [okLed, pure, Except.pure]; rw [setFault_led]; exact hb

@[grind →] theorem saoRecoverFaults_led (s s' : State) (c p : Addr) (fs : List FaultIn) (ik : Nat)
    (h : saoRecoverFaults s c p fs ik = .ok s') : ledPart s' = ledPart s := by
  unfold saoRecoverFaults at h
  dsimp only at h
  split at h
  · rename_i node hn
    -- the role check is a guard: whichever branch, the state it hands on is `s`
    have key : ∀ (pool : Pool), fs.foldlM (recoverStep c p pool ik) s = .ok s' → ledPart s' = ledPart s := by
      intro pool hf
      exact foldlM_led _ (fun s a s' h => okLed_elim (recoverStep_okLed c p pool ik s a) h) _ _ _ hf
    split at h
    · split at h
      · exact (throw_bind_ne h).elim
      · split at h
        · exact key _ h
        · cases h
    · split at h
      · exact (throw_bind_ne h).elim
      · split at h
        · exact key _ h
        · cases h
  · cases h

end SaoVerif
