import SaoVerif.Proofs.Fixed2
/-!
# Who writes the data-model records

`metaPart s` = the model records and the alias index. The functions that never write them — market, node, selection, fault
and staking code, Ready, Migrate, the shard expiry handler — leave `metaPart` exactly as it was. The lemmas follow
`Proofs/Fixed.lean`; `Properties/C09Footprint.lean` lifts this to operations.
-/
namespace SaoVerif

def metaPart (s : State) : List Metadata × List ModelEntry := (s.metas, s.models)

@[simp] theorem setOrder_mt (s : State) (o : Order) : metaPart (s.setOrder o) = metaPart s := rfl
@[simp] theorem removeOrder_mt (s : State) (i : Nat) : metaPart (s.removeOrder i) = metaPart s := rfl
@[simp] theorem appendOrder_mt (s : State) (o : Order) : metaPart (s.appendOrder o).2 = metaPart s := rfl
@[simp] theorem setShard_mt (s : State) (x : Shard) : metaPart (s.setShard x) = metaPart s := rfl
@[simp] theorem removeShard_mt (s : State) (i : Nat) : metaPart (s.removeShard i) = metaPart s := rfl
@[simp] theorem appendShard_mt (s : State) (x : Shard) : metaPart (s.appendShard x).2 = metaPart s := rfl
@[simp] theorem setNode_mt (e : Env) (s : State) (n : Node) : metaPart (s.setNode e n) = metaPart s := rfl
@[simp] theorem setPledge_mt (s : State) (p : Pledge) : metaPart (s.setPledge p) = metaPart s := rfl
@[simp] theorem setWorker_mt (s : State) (w : Worker) : metaPart (s.setWorker w) = metaPart s := rfl
@[simp] theorem setDebt_mt (s : State) (a : Addr) (d : Int) : metaPart (s.setDebt a d) = metaPart s := rfl
@[simp] theorem removeDebt_mt (s : State) (a : Addr) : metaPart (s.removeDebt a) = metaPart s := rfl
@[simp] theorem setBal_mt (s : State) (a : Addr) (v : Int) : metaPart (s.setBal a v) = metaPart s := rfl
@[simp] theorem setDataExpireBlock_mt (s : State) (d : Bytes) (a : Nat) : metaPart (setDataExpireBlock s d a) = metaPart s := rfl
@[simp] theorem setTimeoutOrderBlock_mt (s : State) (i a : Nat) : metaPart (setTimeoutOrderBlock s i a) = metaPart s := rfl
@[simp] theorem setExpiredShardBlock_mt (s : State) (i a : Nat) : metaPart (setExpiredShardBlock s i a) = metaPart s := rfl

theorem send_mt (s s' : State) (a b : Addr) (x : Int) (h : s.send a b x = .ok s') : metaPart s' = metaPart s := by
  unfold State.send at h
  split at h
  · cases h
  · split at h
    · cases h
    · simp only [pure, Except.pure, Except.ok.injEq] at h; subst h; rfl

theorem sendLit_mt (s s' : State) (a b : Addr) (x : Int) (h : s.sendLit a b x = .ok s') : metaPart s' = metaPart s := by
  unfold State.sendLit at h
  split at h
  · cases h
  · exact send_mt _ _ _ _ _ h

theorem removeDataExpireBlock_mt (s s' : State) (d : Bytes) (a : Nat) (h : removeDataExpireBlock s d a = .ok s') :
    metaPart s' = metaPart s := by
  unfold removeDataExpireBlock at h
  split at h
  · simp only [pure, Except.pure, Except.ok.injEq] at h; subst h; rfl
  · split at h
    · cases h
    · simp only at h
      split at h <;> (simp only [pure, Except.pure, Except.ok.injEq] at h; subst h; rfl)

/-! ### market -/
theorem workerRelease_mt (s : State) (o : Order) (sh : Shard) : metaPart (workerRelease s o sh).1 = metaPart s := by
  unfold workerRelease; split <;> rfl

@[simp] theorem workerAppend_mt (s : State) (o : Order) (sh : Shard) : metaPart (workerAppend s o sh) = metaPart s := rfl

theorem marketDeposit_mt (e : Env) (s s' : State) (o : Order) (x : Option String)
    (h : marketDeposit e s o = .ok (s', x)) : metaPart s' = metaPart s := by
  unfold marketDeposit at h
  split at h
  · simp only [pure, Except.pure, Except.ok.injEq, Prod.mk.injEq] at h; rw [← h.1]
  · split at h
    · simp only [pure, Except.pure, Except.ok.injEq, Prod.mk.injEq] at h; rw [← h.1]
    · rename_i s1 hs
      simp only [pure, Except.pure, Except.ok.injEq, Prod.mk.injEq] at h; rw [← h.1]
      exact send_mt _ _ _ _ _ hs

theorem withdrawLoop_mt (o : Order) (l : List Nat) (s : State) (r : Dec) : metaPart (withdrawLoop o l s r).1 = metaPart s := by
  induction l generalizing s r with
  | nil => rfl
  | cons id t ih =>
    unfold withdrawLoop
    split
    · exact ih _ _
    · split
      · exact ih _ _
      · simp only
        split
        · split
          · rename_i sh _ _ _ _ s1 m hw
            have := workerRelease_mt s o sh
            rw [hw] at this
            exact this
          · rename_i sh _ _ _ _ s1 hw
            rw [ih]
            have := workerRelease_mt s o sh
            rw [hw] at this
            exact this
        · split
          · exact ih _ _
          · split <;> exact ih _ _

attribute [grind →] send_mt sendLit_mt removeDataExpireBlock_mt marketDeposit_mt
attribute [grind =] setOrder_mt removeOrder_mt appendOrder_mt setShard_mt removeShard_mt appendShard_mt
  setNode_mt setPledge_mt setWorker_mt setDebt_mt
  removeDebt_mt setBal_mt setDataExpireBlock_mt setTimeoutOrderBlock_mt setExpiredShardBlock_mt workerAppend_mt
  workerRelease_mt withdrawLoop_mt

theorem metaPart_def (s : State) : metaPart s = (s.metas, s.models) := rfl

macro "mt_auto" h:ident : tactic => `(tactic| (
  simp only [bind, Except.bind, pure, Except.pure, throw, throwThe, MonadExceptOf.throw] at $h:ident
  repeat' (split at $h:ident)
  all_goals (first | cases $h:ident | skip)
  all_goals (try simp only [Except.ok.injEq, Prod.mk.injEq] at $h:ident)
  all_goals (first | grind | (simp only [metaPart_def, State.setOrder, State.removeOrder, State.setShard, State.removeShard,
      State.setNode, State.setPledge, State.setWorker, State.setDebt,
      State.removeDebt, State.setBal, State.setOrder]; grind [metaPart_def]))))

@[grind →] theorem marketWithdraw_mt (e : Env) (s s' : State) (o : Order) (x : Int × Option String)
    (h : marketWithdraw e s o = .ok (s', x)) : metaPart s' = metaPart s := by
  unfold marketWithdraw at h
  mt_auto h

@[grind =] theorem marketMigrate_mt (s : State) (o : Order) (a b : Shard) : metaPart (marketMigrate s o a b).1 = metaPart s := by
  unfold marketMigrate
  split <;> grind

/-! ### node -/
@[grind →] theorem nodeCreate_mt (e : Env) (s s' : State) (c : Addr) (h : nodeCreate e s c = .ok s') : metaPart s' = metaPart s := by
  unfold nodeCreate at h
  mt_auto h

@[grind →] theorem nodeReset_mt (e : Env) (s s' : State) (m : ResetMsg) (h : nodeReset e s m = .ok s') : metaPart s' = metaPart s := by
  unfold nodeReset at h
  mt_auto h

@[grind →] theorem promoteIfDue_mt (e : Env) (s s' : State) (c : Addr) (p : Pledge) (h : promoteIfDue e s c p = .ok s') :
    metaPart s' = metaPart s := by
  unfold promoteIfDue at h
  mt_auto h

@[grind →] theorem demoteIfDue_mt (e : Env) (s s' : State) (c : Addr) (p : Pledge) (h : demoteIfDue e s c p = .ok s') :
    metaPart s' = metaPart s := by
  unfold demoteIfDue at h
  mt_auto h

@[grind →] theorem nodeAddVstorage_mt (e : Env) (s s' : State) (c : Addr) (n : Nat) (h : nodeAddVstorage e s c n = .ok s') :
    metaPart s' = metaPart s := by
  unfold nodeAddVstorage at h
  mt_auto h

@[grind →] theorem nodeRemoveVstorage_mt (e : Env) (s s' : State) (c : Addr) (n : Nat) (h : nodeRemoveVstorage e s c n = .ok s') :
    metaPart s' = metaPart s := by
  unfold nodeRemoveVstorage at h
  mt_auto h

@[grind =] theorem repayPledgeDebt_mt (s : State) (sp : Addr) (l : List Int) : metaPart (repayPledgeDebt s sp l).1 = metaPart s := by
  unfold repayPledgeDebt
  repeat' split
  all_goals grind

@[grind →] theorem marketClaim_mt (s s' : State) (sp : Addr) (x : Int) (h : marketClaim s sp = .ok (s', x)) : metaPart s' = metaPart s := by
  unfold marketClaim at h
  mt_auto h

@[grind →] theorem shardRelease_mt (e : Env) (s s' : State) (sp : Addr) (sh : Option Shard) (x : Option String)
    (h : shardRelease e s sp sh = .ok (s', x)) : metaPart s' = metaPart s := by
  unfold shardRelease at h
  mt_auto h

@[grind →] theorem shardPledge_mt (e : Env) (s s' : State) (sh : Shard) (up : Dec) (x : Option String)
    (h : shardPledge e s sh up = .ok (s', x)) : metaPart s' = metaPart s := by
  unfold shardPledge at h
  mt_auto h

@[grind →] theorem nodeClaimReward_mt (e : Env) (s s' : State) (c : Addr) (x : Int)
    (h : nodeClaimReward e s c = .ok (s', x)) : metaPart s' = metaPart s := by
  unfold nodeClaimReward at h
  mt_auto h

/-! ### order / model keepers -/
@[grind =] theorem newShardTask_mt (s : State) (o : Order) (sp : Addr) : metaPart (newShardTask s o sp).2 = metaPart s := rfl

@[grind =] theorem generateShards_mt (s : State) (o : Order) (sps : List Addr) : metaPart (generateShards s o sps).2 = metaPart s := by
  unfold generateShards
  have gen : ∀ (l : List Addr) (acc : Order × State),
      metaPart (l.foldl (fun (acc : Order × State) sp =>
        let (sh, s') := newShardTask acc.2 acc.1 sp
        ({ acc.1 with shards := acc.1.shards ++ [sh.id] }, s')) acc).2 = metaPart acc.2 := by
    intro l
    induction l with
    | nil => intro acc; rfl
    | cons a t ih => intro acc; simp only [List.foldl_cons]; rw [ih]; rfl
  exact gen sps (o, s)

@[grind =] theorem newOrder_mt (s : State) (o : Order) (sps : List Addr) : metaPart (newOrder s o sps).2 = metaPart s := by
  unfold newOrder
  simp only
  rw [setOrder_mt, generateShards_mt]
  rfl

@[grind =] theorem renewOrder_mt (e : Env) (s : State) (o : Order) : metaPart (renewOrder e s o).1 = metaPart s := by
  unfold renewOrder
  repeat' split
  all_goals (first | rfl | grind)

@[grind →] theorem sendToDidBalances_mt (s s' : State) (d : Did) (a : Int) (h : sendToDidBalances s d a = .ok s') : s' = s := by
  unfold sendToDidBalances at h
  split at h
  · simp only [pure, Except.pure, Except.ok.injEq] at h; exact h.symm
  · cases h

@[grind →] theorem orderTerminate_mt (e : Env) (s s' : State) (oid : Nat) (r : Int) (x : Option String)
    (h : orderTerminate e s oid r = .ok (s', x)) : metaPart s' = metaPart s := by
  unfold orderTerminate at h
  mt_auto h

@[grind =] theorem refundOrder_mt (e : Env) (s : State) (oid : Nat) : metaPart (refundOrder e s oid).1 = metaPart s := by
  unfold refundOrder
  repeat' split
  all_goals (first | rfl | grind)

@[grind →] theorem resetMetaDuration_mt (s s' : State) (m m' : Metadata) (h : resetMetaDuration s m = .ok (s', m')) :
    metaPart s' = metaPart s := by
  unfold resetMetaDuration at h
  mt_auto h

@[grind →] theorem terminateRel_mt (e : Env) (o : Order) (l : List Nat) (s s' : State) (x : Option String)
    (h : modelTerminateOrder.rel e o l s = .ok (s', x)) : metaPart s' = metaPart s := by
  induction l generalizing s with
  | nil =>
    unfold modelTerminateOrder.rel at h
    simp only [pure, Except.pure, Except.ok.injEq, Prod.mk.injEq] at h
    rw [← h.1]
  | cons id t ih =>
    unfold modelTerminateOrder.rel at h
    split at h
    · exact ih _ h
    · split at h
      · simp only [bind, Except.bind, pure, Except.pure] at h
        split at h
        · cases h
        · rename_i y hy
          obtain ⟨s1, er⟩ := y
          simp only at h
          split at h
          · simp only [Except.ok.injEq, Prod.mk.injEq] at h; rw [← h.1]; exact shardRelease_mt _ _ _ _ _ _ hy
          · rw [ih _ h]; exact shardRelease_mt _ _ _ _ _ _ hy
      · exact ih _ h

@[grind →] theorem modelTerminateOrder_mt (e : Env) (s s' : State) (o : Order) (x : Option String)
    (h : modelTerminateOrder e s o = .ok (s', x)) : metaPart s' = metaPart s := by
  unfold modelTerminateOrder at h
  mt_auto h

@[grind =] theorem foldl_removeShard_mt (ids : List Nat) (s : State) :
    metaPart (ids.foldl (fun s id => s.removeShard id) s) = metaPart s := by
  induction ids generalizing s with
  | nil => rfl
  | cons a t ih => simp only [List.foldl_cons]; rw [ih]; rfl

/-! ### sao handlers -/
@[grind →] theorem getSps_mt (s s' : State) (o : Order) (d : Bytes) (sps : List Node) (h : getSps s o d = .ok (s', sps)) :
    metaPart s' = metaPart s := by
  have := getSps_round _ _ _ _ _ h
  unfold sameButRound at this
  rw [this]; rfl

@[grind →] theorem randomSP_mt (s s' : State) (c : Int) (ig : List Addr) (sz : Int) (sps : List Node)
    (h : randomSP s c ig sz = .ok (s', sps)) : metaPart s' = metaPart s := by
  have := randomSP_round _ _ _ _ _ _ h
  unfold sameButRound at this
  rw [this]; rfl

@[grind →] theorem saoReadyBody_mt (s s' : State) (o : Order) (h : saoReadyBody s o = .ok s') : metaPart s' = metaPart s := by
  unfold saoReadyBody at h
  mt_auto h

@[grind →] theorem saoReady_mt (s s' : State) (c p : Addr) (oid : Nat) (h : saoReady s c p oid = .ok s') : metaPart s' = metaPart s := by
  unfold saoReady at h
  mt_auto h

@[grind =] theorem increaseReputation_mt (e : Env) (s : State) (a : Addr) (v : Int) : metaPart (increaseReputation e s a v) = metaPart s := by
  unfold increaseReputation
  split <;> rfl

theorem foldl_mt {α : Type} (f : State → α → State) (hf : ∀ s a, metaPart (f s a) = metaPart s) (l : List α) (s : State) :
    metaPart (l.foldl f s) = metaPart s := by
  induction l generalizing s with
  | nil => rfl
  | cons a t ih => simp only [List.foldl_cons]; rw [ih, hf]

@[grind →] theorem completeMigration_mt (e : Env) (s s' : State) (o : Order) (sh : Shard) (x : Order × Shard × Order)
    (h : completeMigration e s o sh = .ok (s', x)) : metaPart s' = metaPart s := by
  unfold completeMigration softTx softTx' at h
  simp only [bind, Except.bind, pure, Except.pure, throw, throwThe, MonadExceptOf.throw] at h
  split at h
  · cases h
  · split at h
    · cases h
    · rename_i v hv
      have hv' : metaPart v = metaPart s := by
        split at hv
        · cases hv
        · rename_i w hw
          split at hv
          · cases hv
          · simp only [Except.ok.injEq] at hv
            rw [← hv]
            exact shardRelease_mt _ _ _ _ _ _ hw
      split at h
      · split at h
        · cases h
        · rename_i v2 hv2
          have hv2' : metaPart v2 = metaPart v := by
            split at hv2
            · cases hv2
            · simp only [Except.ok.injEq] at hv2
              rw [← hv2]
              exact marketMigrate_mt _ _ _ _
          simp only [Except.ok.injEq, Prod.mk.injEq] at h
          rw [← h.1, foldl_mt _ (by intro s a; split <;> rfl)]
          split <;> simp [hv2', hv']
      · cases h

/-! ### Renew -/
theorem send_or_self_mt (s : State) (a b : Addr) (x : Int) :
    metaPart (match s.send a b x with | .ok s' => s' | .error _ => s) = metaPart s := by
  split
  · rename_i s' h; exact send_mt _ _ _ _ _ h
  · rfl

theorem sendLit_or_self_mt (s : State) (a b : Addr) (x : Int) :
    metaPart (match s.sendLit a b x with | .ok s' => s' | .error _ => s) = metaPart s := by
  split
  · rename_i s' h; exact sendLit_mt _ _ _ _ _ h
  · rfl

@[grind →] theorem renewShard_mt (e : Env) (s s' : State) (sh : Shard) (oid dur : Nat) (up : Dec) (x : Int × Nat)
    (h : renewShard e s sh oid dur up = .ok (s', x)) : metaPart s' = metaPart s := by
  unfold renewShard at h
  obtain ⟨np, _, h⟩ := bind_ok h
  obtain ⟨v, hv, h⟩ := bind_ok h
  obtain ⟨s1, sh1, chg⟩ := v
  dsimp only at h
  simp only [pure, Except.pure, Except.ok.injEq, Prod.mk.injEq] at h
  rw [← h.1, setShard_mt]
  split at hv
  · dsimp only at hv
    split at hv
    · rename_i pl hpl
      simp only [pure, Except.pure, Except.ok.injEq, Prod.mk.injEq] at hv
      rw [← hv.1, setPledge_mt]
      split
      · exact send_or_self_mt _ _ _ _
      · rw [setDebt_mt]; exact sendLit_or_self_mt _ _ _ _
    · cases hv
  · simp only [pure, Except.pure, Except.ok.injEq, Prod.mk.injEq] at hv
    rw [← hv.1]

@[grind →] theorem renewLoop_mt (e : Env) (dur : Nat) (newO : Order) (l : List Shard) (s s' : State) (chg : Int) (mx : Nat) (x : Int × Nat)
    (h : renewBody.loop e dur newO l s chg mx = .ok (s', x)) : metaPart s' = metaPart s := by
  induction l generalizing s chg mx with
  | nil =>
    unfold renewBody.loop at h
    simp only [pure, Except.pure, Except.ok.injEq, Prod.mk.injEq] at h
    rw [← h.1]
  | cons sh t ih =>
    unfold renewBody.loop at h
    split at h
    · exact ih _ _ _ h
    · obtain ⟨v, hv, h⟩ := bind_ok h
      obtain ⟨s1, c, ex⟩ := v
      dsimp only at h
      rw [ih _ _ _ h, renewShard_mt _ _ _ _ _ _ _ _ hv]

/-! ### Migrate -/
@[grind →] theorem migrateOrderLoop_mt (s0 : State) (p : Addr) (l : List Nat) (commits : List Bytes) (st s' : State)
    (h : migrateOrderLoop s0 p l commits st = .ok s') : metaPart s' = metaPart st := by
  induction l generalizing commits st with
  | nil =>
    unfold migrateOrderLoop at h
    simp only [pure, Except.pure, Except.ok.injEq] at h
    rw [← h]
  | cons oid t ih =>
    unfold migrateOrderLoop at h
    split at h
    · exact ih _ _ h
    · split at h
      · exact ih _ _ h
      · (try dsimp only at h)
        split at h
        · exact ih _ _ h
        · split at h
          · exact ih _ _ h
          · (try dsimp only at h)
            split at h
            · exact ih _ _ h
            · obtain ⟨v, hv, h⟩ := bind_ok h
              obtain ⟨st1, sps⟩ := v
              dsimp only at h
              split at h
              · rw [ih _ _ h, randomSP_mt _ _ _ _ _ _ hv]
              · rw [ih _ _ h, setOrder_mt, appendShard_mt, randomSP_mt _ _ _ _ _ _ hv]

@[grind →] theorem saoMigrateLoop_mt (s0 : State) (p : Addr) (l : List Bytes) (st s' : State)
    (h : saoMigrate.loop s0 p l st = .ok s') : metaPart s' = metaPart st := by
  induction l generalizing st with
  | nil =>
    unfold saoMigrate.loop at h
    simp only [pure, Except.pure, Except.ok.injEq] at h
    rw [← h]
  | cons d t ih =>
    unfold saoMigrate.loop at h
    split at h
    · exact ih _ h
    · obtain ⟨v, hv, h⟩ := bind_ok h
      rw [ih _ h, migrateOrderLoop_mt _ _ _ _ _ _ hv]

@[grind →] theorem saoMigrate_mt (s s' : State) (c p : Addr) (data : List Bytes) (h : saoMigrate s c p data = .ok s') :
    metaPart s' = metaPart s := by
  unfold saoMigrate at h
  split at h
  · exact (throw_bind_ne h).elim
  · exact saoMigrateLoop_mt _ _ _ _ _ h

@[grind =] theorem timeoutSettle_mt (s : State) (o : Order) (v : TimeoutView) : metaPart (timeoutSettle s o v) = metaPart s := by
  unfold timeoutSettle
  dsimp only
  split
  · rw [setOrder_mt, foldl_removeShard_mt]
  · rw [foldl_removeShard_mt]

@[grind →] theorem timeoutReassign_mt (s s' : State) (o : Order) (v : TimeoutView) (sps : List Node)
    (h : timeoutReassign s o v sps = .ok s') : metaPart s' = metaPart s := by
  unfold timeoutReassign at h
  split at h
  · cases h
  · dsimp only at h
    simp only [pure, Except.pure, Except.ok.injEq] at h
    rw [← h, setTimeoutOrderBlock_mt, setOrder_mt]
    have gen : ∀ (l : List (Node × Shard)) (acc : Order × State),
        metaPart (l.foldl (fun (acc : Order × State) (x : Node × Shard) =>
          let s := acc.2.setShard { x.2 with status := ShardTimeout }
          let (nsh, s) := newShardTask s acc.1 x.1.creator
          ({ acc.1 with shards := acc.1.shards ++ [nsh.id] }, s)) acc).2 = metaPart acc.2 := by
      intro l
      induction l with
      | nil => intro acc; rfl
      | cons a t ih => intro acc; simp only [List.foldl_cons]; rw [ih]; rfl
    exact gen _ (o, s)

@[grind →] theorem handleExpiredShard_mt (e : Env) (s s' : State) (id : Nat) (h : handleExpiredShard e s id = .ok s') :
    metaPart s' = metaPart s := by
  unfold handleExpiredShard at h
  split at h
  · rename_i sh hsh
    split at h
    · rename_i o ho
      dsimp only at h
      obtain ⟨v, hv, h⟩ := bind_ok h
      have hv' : metaPart v = metaPart s := by
        split at hv
        · obtain ⟨x, hx, hv⟩ := bind_ok hv
          obtain ⟨s1, er⟩ := x
          simp only [pure, Except.pure, Except.ok.injEq] at hv
          rw [← hv, removeShard_mt, shardRelease_mt _ _ _ _ _ _ hx, workerRelease_mt]
        · simp only [pure, Except.pure, Except.ok.injEq] at hv
          rw [← hv, workerAppend_mt, setShard_mt, setExpiredShardBlock_mt, workerRelease_mt]
      split at h
      · split at h
        · simp only [pure, Except.pure, Except.ok.injEq] at h; rw [← h, removeOrder_mt, hv']
        · simp only [pure, Except.pure, Except.ok.injEq] at h; rw [← h, hv']
      · simp only [pure, Except.pure, Except.ok.injEq] at h; rw [← h, setOrder_mt, hv']
    · simp only [pure, Except.pure, Except.ok.injEq] at h; rw [← h]
  · simp only [pure, Except.pure, Except.ok.injEq] at h; rw [← h]

/-! ### end-blockers -/
theorem foldlM_mt {α : Type} (f : State → α → TxM State) (hf : ∀ s a s', f s a = .ok s' → metaPart s' = metaPart s)
    (l : List α) (s s' : State) (h : l.foldlM f s = .ok s') : metaPart s' = metaPart s := by
  induction l generalizing s with
  | nil => simp only [List.foldlM, pure, Except.pure, Except.ok.injEq] at h; rw [← h]
  | cons a t ih =>
    simp only [List.foldlM] at h
    obtain ⟨v, hv, h⟩ := bind_ok h
    rw [ih _ h, hf _ _ _ hv]

@[grind =] theorem nodeEndBlock_mt (s : State) : metaPart (nodeEndBlock s) = metaPart s := rfl

/-- the outcome of a state transformer leaves the fixed part alone (nothing is claimed about a failure) -/
def okMt (s : State) (r : TxM State) : Prop :=
  match r with
  | .ok s' => metaPart s' = metaPart s
  | .error _ => True

theorem okMt_elim {s s' : State} {r : TxM State} (h : okMt s r) (hr : r = .ok s') : metaPart s' = metaPart s := by
  subst hr; exact h

@[simp] theorem setFault_mt (s : State) (f : Fault) : metaPart (s.setFault f) = metaPart s := rfl
@[simp] theorem removeFault_mt (s : State) (f : Fault) : metaPart (s.removeFault f) = metaPart s := rfl
@[simp] theorem fishAdd_mt (s : State) (k : Nat × Nat) (v : Dec) : metaPart (fishAdd s k v) = metaPart s := by
  unfold fishAdd; split <;> rfl
@[simp] theorem faultBySpShard_mt (s : State) (p : Addr) (sh : Nat) : metaPart (s.faultBySpShard p sh).1 = metaPart s := by
  unfold State.faultBySpShard
  repeat' split
  all_goals rfl

theorem reportStep_mt (c p : Addr) (s : State) (x : FaultIn × StrId) : metaPart (reportStep c p s x) = metaPart s := by
  unfold reportStep
  dsimp only
  repeat' split
  all_goals (first | rfl | simp)

@[grind →] theorem saoReportFaults_mt (s s' : State) (c p : Addr) (fs : List FaultIn) (ids : List StrId)
    (h : saoReportFaults s c p fs ids = .ok s') : metaPart s' = metaPart s := by
  unfold saoReportFaults at h
  split at h
  · cases h
  · split at h
    · cases h
    · simp only [pure, Except.pure, Except.ok.injEq] at h
      rw [← h]
      exact foldl_mt _ (reportStep_mt c p) _ _

theorem okMt_of_eq {s s1 : State} {r : TxM State} (h : metaPart s1 = metaPart s) (hr : okMt s1 r) : okMt s r := by
  unfold okMt at *
  split
  · rename_i s' _; simp only at hr; rw [hr, h]
  · trivial

theorem recoverSettle_okMt (pool : Pool) (ik : Nat) (s : State) (o : Order) (org fm : Fault) (pl : Pledge) :
    okMt s (recoverSettle pool ik s o org fm pl) := by
  unfold recoverSettle
  dsimp only
  split
  · simp [okMt, throw, throwThe, MonadExceptOf.throw]
  · split
    · simp [okMt, throw, throwThe, MonadExceptOf.throw]
    · simp only [okMt, pure, Except.pure]
      rw [removeFault_mt, setPledge_mt, foldl_mt _ (fun s c => fishAdd_mt s _ _), fishAdd_mt]
      split <;> rfl

theorem recoverStep_okMt (c p : Addr) (pool : Pool) (ik : Nat) (s : State) (f : FaultIn) :
    okMt s (recoverStep c p pool ik s f) := by
  have hb := faultBySpShard_mt s f.provider f.shardId
  unfold recoverStep
  split
  · simp [okMt, pure, Except.pure]
  split
  · simp [okMt, pure, Except.pure]
  split
  · simp [okMt, pure, Except.pure]
  split
  · simp [okMt, pure, Except.pure]
  split
  · simp [okMt, pure, Except.pure]
  -- from here on the state is the one `faultBySpShard` returned
  generalize hq : s.faultBySpShard f.provider f.shardId = q at hb ⊢
  obtain ⟨s1, org?⟩ := q
  (try dsimp only at hb ⊢)
  split
  · simp only [okMt, pure, Except.pure]; exact hb
  split
  · simp only [okMt, pure, Except.pure]; exact hb
  (try dsimp only)
  split
  · simp only [okMt, pure, Except.pure]; exact hb
  · split
    · split
      · exact okMt_of_eq hb (recoverSettle_okMt _ _ _ _ _ _ _)
      · simp only [okMt, pure, Except.pure]; rw [setFault_mt]; exact hb
    · simp only [okMt, pure, Except.pure]; rw [setFault_mt]; exact hb

@[grind →] theorem saoRecoverFaults_mt (s s' : State) (c p : Addr) (fs : List FaultIn) (ik : Nat)
    (h : saoRecoverFaults s c p fs ik = .ok s') : metaPart s' = metaPart s := by
  unfold saoRecoverFaults at h
  dsimp only at h
  split at h
  · rename_i node hn
    -- the role check is a guard: whichever branch, the state it hands on is `s`
    have key : ∀ (pool : Pool), fs.foldlM (recoverStep c p pool ik) s = .ok s' → metaPart s' = metaPart s := by
      intro pool hf
      exact foldlM_mt _ (fun s a s' h => okMt_elim (recoverStep_okMt c p pool ik s a) h) _ _ _ hf
    split at h
    · split at h
      · exact (throw_bind_ne h).elim
      · split at h
        · exact key _ h
        · cases h
    · split at h
      · exact (throw_bind_ne h).elim
      · split at h
        · exact key _ h
        · cases h
  · cases h

end SaoVerif
