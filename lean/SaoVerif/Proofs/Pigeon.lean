/-! A duplicate-free list contained in a list that is not longer contains it: the counting argument behind
    "Update handles exactly the DID's own account list". -/
namespace SaoVerif

theorem nodup_subset_superset {α : Type} [DecidableEq α] (l l2 : List α) (hn : l.Nodup) (hs : ∀ x ∈ l, x ∈ l2)
    (hl : l2.length ≤ l.length) : ∀ x ∈ l2, x ∈ l := by
  induction l generalizing l2 with
  | nil =>
    intro x hx
    have : l2 = [] := List.eq_nil_of_length_eq_zero (by simpa using hl)
    rw [this] at hx; exact hx
  | cons a t ih =>
    have ha : a ∈ l2 := hs a List.mem_cons_self
    have hnt := (List.nodup_cons.mp hn)
    have hlen : (l2.erase a).length = l2.length - 1 := List.length_erase_of_mem ha
    have hpos : 0 < l2.length := List.length_pos_of_mem ha
    have hsub : ∀ x ∈ t, x ∈ l2.erase a := by
      intro x hx
      have hxa : x ≠ a := by intro h; subst h; exact hnt.1 hx
      exact (List.mem_erase_of_ne hxa).mpr (hs x (List.mem_cons_of_mem _ hx))
    have hl' : (l2.erase a).length ≤ t.length := by
      rw [hlen]; simp only [List.length_cons] at hl; omega
    intro x hx
    by_cases hxa : x = a
    · subst hxa; exact List.mem_cons_self
    · exact List.mem_cons_of_mem _ (ih (l2.erase a) hnt.2 hsub hl' x ((List.mem_erase_of_ne hxa).mpr hx))

end SaoVerif
