import SaoVerif.Model.Step
/-! Executable monitors: the decidable property predicates evaluated on implementation states
    and (pre, op, res, post) steps. Each hit is `(property id, message)`. -/
namespace SaoVerif.Monitors
open SaoVerif

def checkState (_e : Env) (_s : State) : List (String × String) := []

def checkStep (_e : Env) (_pre : State) (_op : Op) (_res : Res) (_post : State) : List (String × String) := []

end SaoVerif.Monitors
