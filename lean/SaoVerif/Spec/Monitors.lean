import SaoVerif.Spec.Inv
/-! Executable monitors: the decidable property predicates evaluated on implementation states
    and (pre, op, res, post) steps. Each hit is `(property id, "clause=<name> cls=<class> rec=<records> …")`.
    State clauses are evaluated per record; a hit is a record that violates the clause in the
    post-state but did not in the pre-state (the step that breaks it). -/
namespace SaoVerif.Monitors
open SaoVerif SaoVerif.Spec

/-- violating records of each state clause, as printable keys -/
def violators (e : Env) (s : State) : List (String × String × List String) :=
  [ ("C13", "ordersListExisting",
      s.orders.filterMap (fun o =>
        let d := o.shards.filter (fun id => (s.getShard id).isNone)
        if d.isEmpty then none else some s!"order{o.id}:{d}")),
    ("C13", "shardsListedByOrder",
      s.shards.filterMap (fun sh => match s.getOrder sh.orderId with
        | some o => if o.shards.contains sh.id then none else some s!"shard{sh.id}"
        | none => some s!"shard{sh.id}")),
    ("C13", "completedScheduled",
      s.shards.filterMap (fun sh => if sh.status ≠ ShardCompleted ||
        ((Map.find? s.expiredShardQ (addU64 sh.createdAt sh.duration)).getD []).contains sh.id then none else some s!"shard{sh.id}")),
    ("C13", "aliasesAgree", if aliasesAgree s then [] else ["aliases"]),
    ("C14", "usedAgrees", s.pledges.filterMap (fun p => if usedAgrees s p then none else some s!"sp{p.creator}")),
    ("C14", "shardPledgeAgrees", s.pledges.filterMap (fun p => if shardPledgeAgrees s p then none else
        some s!"sp{p.creator}:{if p.totalShardPledged < sumInt ((completedShardsOf s p.creator).map (·.pledge)) then "under" else "over"}")),
    ("C14", "workerAgrees", (providersOf s).filterMap (fun p => if workerAgrees s p then none else some s!"sp{p}")),
    ("C14", "shardHolderPledged", s.shards.filterMap (fun sh => if sh.status ≠ ShardCompleted || (s.getPledge sh.sp).isSome then none else some s!"shard{sh.id}")),
    ("C14", "poolAgrees", if poolAgrees s then [] else ["pool"]),
    -- C08: rewards are shared pro rata only if the divisor of the accumulator is the capacity the providers hold
    ("C08", "rewardDivisorAgrees", match s.pool with
      | some pool => if pool.totalStorage = sumInt (s.pledges.map (·.totalStorage)) then [] else ["pool.totalStorage"]
      | none => []),
    ("C07", "usedBounds", s.pledges.filterMap (fun p => if 0 ≤ p.usedStorage && p.usedStorage ≤ p.totalStorage then none else some s!"sp{p.creator}")),
    ("C16", "idsFresh", if idsFresh s then [] else ["ids"]),
    ("C16", "oneInFlight", s.metas.filterMap (fun m =>
        let open_ := s.orders.filter (fun o => o.dataId = m.dataId && o.status ≠ OrderCompleted)
        if (if m.status = MetaComplete then open_.isEmpty else open_.map (·.id) = [m.orderId]) then none else some s!"meta-order{m.orderId}")),
    ("C16", "commitIsLatest", s.metas.filterMap (fun m =>
        if m.status ≠ MetaComplete || m.commits.isEmpty || some m.commit = (m.commits.getLast?.map commitFromVersion) then none
        else some s!"meta{m.dataId.take 8}")),
    ("C20", "superInv", s.nodes.filterMap (fun n => if n.role = 0 || superPredicate s n then none else some s!"node{n.creator}")),
    ("C11", "modelOutlivesShards", s.shards.filterMap (fun sh => if sh.status ≠ ShardCompleted || (addU64 sh.createdAt sh.duration : Int) ≤ s.h ||
        (match s.getOrder sh.orderId with | some o => (s.getMeta o.dataId).isSome | none => true) then none else some s!"shard{sh.id}")),
    ("C11", "shardBacked", s.shards.filterMap (fun sh => if sh.status ≠ ShardCompleted || ((s.getPledge sh.sp).isSome && (s.getWorker sh.sp).isSome) then none else some s!"shard{sh.id}")),
    -- "its income stops": a provider's income rate and stored bytes are those of the shards it stores — nothing of a released shard
    ("C11", "incomeStops", (providersOf s).filterMap (fun p => if workerAgrees s p then none else some s!"sp{p}")),
    ("C11", "metaLifetimeSane", s.metas.filterMap (fun m => if m.createdAt + m.duration < 9223372036854775808 then none else some s!"meta{m.dataId.take 8}")),
    ("C04", "escrowsSettled", if escrowsSettled e s then [] else ["escrows"]),
    ("C17", "didFunctional", if didFunctional s.did then [] else ["did"]),
    -- the same chain account is one account however its id is spelled (eip155 addresses are case-insensitive hex)
    ("C17", "accountBoundOnce",
      let norm (b : Bytes) : Bytes :=
        -- the chain account an id stands for: its first three ':'-separated segments (what the proof check reads) …
        let b3 := ((splitB b 58).take 3).foldl (fun acc seg => if acc = [] then seg else acc ++ [58] ++ seg) []
        -- … with hex addresses in lower case
        if isPrefixB [101, 105, 112, 49, 53, 53, 58] b3 then b3.map (fun c => if 65 ≤ c && c ≤ 90 then c + 32 else c) else b3
      let ids := s.did.did.map (fun x => norm x.accountId)
      if ids.eraseDups.length = ids.length then [] else ["same-account-two-spellings"]),
    ("C17", "didListsAgree", if didListsAgree s.did then [] else ["did"]),
    ("C17", "sidPayAddrBound", if sidPayAddrBound s.did then [] else ["did"]),
    ("C17", "keyPayAddrSelf", if keyPayAddrSelf s.did then [] else ["did"]),
    ("C06", "solventOrder", if solventOrder e s then [] else ["order-escrow"]),
    ("C06", "solventMarket", if solventMarket e s then [] else ["market-escrow"]),
    ("C06", "solventNode", if solventNode e s then [] else ["node-escrow"]),
    ("C06", "solventNodeByShards", if solventNodeByShards e s then [] else ["node-escrow"]) ]

def isBlockEnd : Op → Bool
  | .end_ => true
  | _ => false

/-! ### defect classes (DESIGN §6.3): decidable predicates on (pre-state, op) naming a known-finding class -/

/-- completion of a migrating shard whose source shard carries a renewal that was bought after
    the migration started (the renewal order is not the order listing the migrating shard) -/
def clsMigrateRenew (pre : State) : Op → Bool
  | .complete _ prov oid _ _ _ =>
    match pre.getOrder oid with
    | none => false
    | some o =>
      match getOrderShardBySP pre o prov with
      | none => false
      | some sh =>
        sh.status = ShardMigrating &&
        (match getOrderShardBySP pre o sh.«from» with
         | some old => old.renewInfos.any (fun ri => ri.orderId ≠ o.id && ri.orderId ≠ old.orderId)
         | none => false)
  | _ => false

/-- a residue of the package variable `sharesBeforeModified` is present when the step starts
    (left by a failed or simulated staking message): the class of finding F06 -/
def clsStaleGlobal (pre : Sys) : Bool := pre.global ≠ 0

def isStakingOp : Op → Bool
  | .delegate .. => true
  | .undelegate .. => true
  | .redelegate .. => true
  | _ => false

/-- a new model is created for a data id that still has an unfinished order of an earlier
    incarnation (its model was terminated while that order was in flight): finding F18 -/
def clsOrphanOrder (pre : State) : Op → Bool
  | .store m => (pre.getMeta m.p.dataId).isNone && pre.orders.any (fun o => o.dataId = m.p.dataId && o.status ≠ OrderCompleted)
  | _ => false

/-- `origin` says how the residue present in `pre` came about (tracked by the driver along the history):
    "failed-tx" / "simulated-tx" is finding F06; a residue left by a *successful* staking transaction is not -/
def classOf (pre : Sys) (op : Op) (origin : String := "failed-tx") : String :=
  if clsOrphanOrder pre.st op then "orphan-order"
  else if clsStaleGlobal pre && isStakingOp op then (if origin = "ok-tx" then "stale-global-after-ok-tx" else "stale-global")
  else if clsMigrateRenew pre.st op then "migrate-renew" else "none"

/-! ### C09: which data models may a request change -/
def authorisedFor (pre : State) (op : Op) (d : Bytes) : Bool :=
  let ownerOrRw (sigDid : Did) : Bool :=
    match pre.getMeta d with
    | none => true
    | some m => m.owner = sigDid || m.readwriteDids.contains sigDid
  let ownerOnly (sigDid : Did) : Bool :=
    match pre.getMeta d with
    | none => true
    | some m => m.owner = sigDid
  match op with
  | .store m => m.p.dataId = d && m.sigValid && m.sigDid = m.p.owner && ownerOrRw m.sigDid
  | .terminate _ _ _ dd sv sd => dd = d && sv && ownerOrRw sd
  | .renew _ _ sv sd _ _ data => data.contains d && sv && ownerOnly sd
  | .perm _ _ ow dd _ _ sv => dd = d && sv && ownerOnly ow
  -- the completion that applies an accepted request to the model (the first one of its order): the DID that signed the
  -- order must still be the owner or hold read-write access when it is applied (UpdateMeta re-checks it). The completions
  -- of the order's other replicas only extend the lifetime to what the request paid for: consequences of a request that
  -- was entitled when it was accepted and applied
  | .complete _ _ oid _ _ _ =>
    (match pre.getOrder oid with
     | some o => if o.dataId = d && o.status ≠ OrderCompleted then ownerOrRw o.owner else true
     | none => true)
  -- scheduled expiry and automatic rollback are not requests — but they are the *only* things the end-blocker may do to a
  -- model: it rolls back one that has an update (or its creation) in flight, and removes one whose paid lifetime has ended;
  -- a committed model with lifetime left is not its business (a stale schedule entry of a former model under the same data
  -- id must not delete it: the `fix:` of F14, seeded change C09-10)
  | .cancel .. => true
  | .end_ =>
    (match pre.getMeta d with
     | none => true
     | some m => m.status ≠ MetaComplete || !(addU64 m.createdAt m.duration > toU64 pre.h))
  | _ => false

def changedMetas (pre post : State) : List Bytes :=
  ((pre.metas.map (·.dataId)) ++ (post.metas.map (·.dataId))).eraseDups.filter (fun d => pre.getMeta d ≠ post.getMeta d)

/-! ### C10: who may act -/
def nodeActs (s : State) (creator provider : Addr) : Bool :=
  provider = creator || (match s.getNode provider with
    | some n => n.txAddresses.contains creator
    | none => false)

/-- accepted messages whose actor is not entitled to act for the object it touched -/
def actorViolations (pre : State) (op : Op) : List String :=
  match op with
  | .cancel c p oid =>
    match pre.getOrder oid with
    | some o =>
      if o.creator = c then []
      else if p = o.provider && nodeActs pre c p && (o.creator = p || nodeActs pre o.creator p) then []
      else [s!"cancel-order{oid}-by{c}-via{p}"]
    | none => []
  | .complete c p oid _ _ _ =>
    match pre.getOrder oid with
    | some o =>
      (match getOrderShardBySP pre o p with
       | some sh => if sh.sp = p && nodeActs pre c p then [] else [s!"complete-shard{sh.id}-by{c}"]
       | none => [s!"complete-order{oid}-no-shard-of{p}"])
    | none => []
  | .store m =>
    -- the owner's payment address is charged only when the request comes from the gateway the
    -- owner-signed proposal names (or one of its own addresses) or from an account bound to the owner
    if m.p.paymentDid ≠ 0 then
      (if pre.paymentAddress m.p.paymentDid = some m.creator then [] else ["store-sponsor-not-submitter"])
    else if creatorBound pre m.creator m.p.owner then []
    else if m.msgProvider = m.p.provider && nodeActs pre m.creator m.p.provider then []
    else [s!"store-charged-owner-by{m.creator}-claiming{m.msgProvider}-named{m.p.provider}"]
  | .ready c p oid =>
    match pre.getOrder oid with
    | some o => if p = o.provider && nodeActs pre c p then [] else [s!"ready-order{oid}-by{c}"]
    | none => []
  -- every other message with a creator / provider pair: the sender is the node it names or one of the addresses that
  -- node registered — not a node that merely lists the named one among its own addresses
  | .migrate c p _ => if nodeActs pre c p then [] else [s!"migrate-by{c}-naming{p}"]
  | .terminate c p _ _ _ _ => if nodeActs pre c p then [] else [s!"terminate-by{c}-naming{p}"]
  | .perm c p _ _ _ _ _ => if nodeActs pre c p then [] else [s!"perm-by{c}-naming{p}"]
  | .renew c p _ _ _ _ _ => if nodeActs pre c p then [] else [s!"renew-by{c}-naming{p}"]
  | _ => []

/-- the orders an accepted Renew creates belong to — and are therefore charged to — the DID that signed it -/
def renewalViolations (pre post : State) (op : Op) : List String :=
  match op with
  | .renew _ _ _ sd _ _ _ =>
    (post.orders.filter (fun o => (pre.getOrder o.id).isNone && o.owner ≠ sd)).map (fun o => s!"renewal-order{o.id}-owned-by{o.owner}-signed-by{sd}")
  | _ => []

/-! ### C19: fault reports -/
def isFaultOp : Op → Bool
  | .report .. => true
  | .recover .. => true
  | _ => false

def faultOpCreator : Op → Addr
  | .report c _ _ _ => c
  | .recover c _ _ _ => c
  | _ => 0

def faultOpProvider : Op → Addr
  | .report _ p _ _ => p
  | .recover _ p _ _ => p
  | _ => 0

/-- violations of C19 by an accepted report / recover message -/
def faultViolations (pre post : State) (op : Op) : List String :=
  if !isFaultOp op then [] else
  let c := faultOpCreator op
  let isFishman := (pre.getNode c).isSome && pre.params.fishmen.contains c
  let newFaults := post.faults.filter (fun f => !pre.faults.any (fun g => g.key = f.key))
  let changedFaults := post.faults.filter (fun f => !pre.faults.contains f)
  -- 1. only fishmen file or confirm; a provider may only touch faults recorded against itself
  (if changedFaults ≠ [] ∧ !isFishman ∧ !(changedFaults.all (fun f => f.provider = c)) then ["non-fishman-changed-faults"] else []) ++
  (if newFaults ≠ [] ∧ !isFishman then ["non-fishman-filed"] else []) ++
  -- 2. a recorded report names an existing, unexpired shard the accused holds for the named order and model
  (newFaults.filterMap (fun f =>
    match pre.getOrder f.orderId, pre.getShard f.shardId with
    | some o, some sh =>
      -- "actually holds": the shard is stored (a shard that is only assigned, migrating in or timed out is not held)
      if o.shards.contains f.shardId && sh.sp = f.provider && o.dataId = f.dataId && (pre.getMeta f.dataId).isSome &&
         sh.status = ShardCompleted && addU64 sh.createdAt sh.duration > toU64 pre.h then none else some s!"invalid-report-shard{f.shardId}-order{f.orderId}"
    | _, _ => some s!"invalid-report-shard{f.shardId}-order{f.orderId}")) ++
  -- 3. nothing but the fault stores and the accused provider's own pledge changes
  (if pre.bank ≠ post.bank || pre.supply ≠ post.supply then ["balances-changed"] else []) ++
  (if pre.orders ≠ post.orders || pre.shards ≠ post.shards || pre.metas ≠ post.metas then ["orders-or-shards-changed"] else []) ++
  (if pre.nodes ≠ post.nodes || pre.workers ≠ post.workers || pre.debts ≠ post.debts || pre.pool ≠ post.pool then ["node-state-changed"] else []) ++
  (if (post.pledges.filter (fun p => p.creator ≠ faultOpProvider op)) ≠ (pre.pledges.filter (fun p => p.creator ≠ faultOpProvider op)) then ["other-pledge-changed"] else [])

def checkState (e : Env) (s : State) : List (String × String) :=
  (violators e s).filterMap (fun (p, c, recs) => if recs.isEmpty then none else some (p, s!"clause={c} cls=genesis rec={recs}"))

/-- how a residue of the package variable created by this step came about ("" = none created) -/
def residueOrigin (pre : Sys) (op : Op) (res : Res) (post : Sys) : String :=
  if pre.global = 0 && post.global ≠ 0 then
    (match op, res with | .sim _, _ => "simulated-tx" | _, .ok => "ok-tx" | _, _ => "failed-tx")
  else ""

def checkStep (e : Env) (pre : Sys) (op : Op) (res : Res) (post : Sys) (origin : String := "failed-tx") : List (String × String) :=
  let vpre := violators e pre.st
  let vpost := violators e post.st
  let cls := classOf pre op origin
  let stateHits := (vpost.zip vpre).filterMap (fun ((p, c, rpost), (_, _, rpre)) =>
    let fresh := rpost.filter (fun r => !rpre.contains r)
    if fresh.isEmpty then none else some (p, s!"clause={c} cls={cls} rec={fresh}"))
  stateHits ++
  -- C02: nothing may hang; blockers may not panic
  (match res with
   | .hang => [("C02", s!"clause=hang cls={match (step e pre op).1 with | .hang => "model-predicted" | _ => "unpredicted"}")]
   | .panic => [("C02", s!"clause=blocker-panic cls={cls}")]
   | _ => []) ++
  -- C09: every data model changed by an accepted request must be one the request is authorised for
  (if res = .ok then
    ((changedMetas pre.st post.st).filter (fun d => !authorisedFor pre.st op d)).map
      (fun d => ("C09", s!"clause=unauthorisedChange cls={if (match op with | .store m => containsB m.p.commitId m.p.dataId && (pre.st.getMeta m.p.dataId).isSome | _ => false) then "commit-embeds-dataid" else "none"} rec=meta{d.take 8}"))
   else []) ++
  -- C09: an accepted UpdataPermission leaves the model with exactly the lists the owner signed — in particular an empty
  -- list revokes everybody
  (match op, res with
   | .perm _ _ _ d ro rw _, .ok =>
     (match post.st.getMeta d with
      | some m => if m.readonlyDids = ro && m.readwriteDids = rw then [] else [("C09", s!"clause=permApplied cls=none rec=meta{d.take 8}")]
      | none => [])
   | _, _ => []) ++
  -- C09: the content a completion puts into the model is the content of the signed request (the order's), whatever the
  -- completing provider reports
  (match op, res with
   | .complete _ _ oid _ _ _, .ok =>
     (match pre.st.getOrder oid with
      | some o =>
        (match post.st.getMeta o.dataId with
         | some m' => if (pre.st.getMeta o.dataId).map (·.cid) ≠ some m'.cid && m'.cid ≠ o.cid
                      then [("C09", s!"clause=contentAsSigned cls=none rec=meta{o.dataId.take 8}")] else []
         | none => [])
      | none => [])
   | _, _ => []) ++
  -- C10: the actor of an accepted message must be entitled to act for what it touched
  (if res = .ok then (actorViolations pre.st op).map (fun v => ("C10", s!"clause=actor cls={match op with | .cancel .. => "cancel-claimed-provider" | _ => "none"} rec={v}")) else []) ++
  -- C10: an accepted Reset that names transaction addresses replaces the node's list with exactly those: an address the
  -- node no longer lists has no authority left
  (match op, res with
   | .reset m, .ok =>
     if m.txAddrs ≠ [] then
       (match post.st.getNode m.creator with
        | some n => if n.txAddresses = m.txAddrs then [] else [("C10", s!"clause=resetReplacesTxAddrs cls=none rec=node{m.creator}:{n.txAddresses}")]
        | none => [])
     else []
   | _, _ => []) ++
  (if res = .ok then (renewalViolations pre.st post.st op).map (fun v => ("C10", s!"clause=renewalOwnedBySigner cls=none rec={v}")) else []) ++
  -- C11: a completed shard disappears only at/after the end of its paid period, or through an
  -- owner/grantee request (terminate, force-push completion), a migration hand-over or a cancel
  (let gone := pre.st.shards.filter (fun sh => sh.status = ShardCompleted && (post.st.getShard sh.id).isNone)
   let early := gone.filter (fun sh => (post.st.h : Int) < (addU64 sh.createdAt sh.duration : Int))
   let allowed := match op with
     | .terminate .. => true
     | .complete .. => true     -- force-push settlement / migration hand-over
     | .cancel .. => true
     | _ => false
   if early ≠ [] ∧ !allowed then early.map (fun sh => ("C11", s!"clause=releasedEarly cls=none rec=shard{sh.id}")) else []) ++
  (if isBlockEnd op && res = .ok && !noOverdueShard post.st then [("C11", "clause=noOverdueShard cls=none")] else []) ++
  -- C05: an order that ends with no shard ever completed is refunded in full and leaves nothing behind
  (let ended := pre.st.orders.filter (fun o => o.status ≠ OrderCompleted && o.operation ≠ 3 && (post.st.getOrder o.id).isNone)
   let viaTimeoutOrCancel := match op with
     | .cancel .. => true
     | .end_ => true
     | _ => false
   if res = .ok && viaTimeoutOrCancel then
     ended.filterMap (fun o =>
       let pd := if o.paymentDid ≠ 0 then o.paymentDid else o.owner
       let refunded := match pre.st.paymentAddress pd with
         | some a => post.st.bal a - pre.st.bal a ≥ o.amount
         | none => false
       let shardsGone := o.shards.all (fun id => (post.st.getShard id).isNone)
       let metaOk := match pre.st.getMeta o.dataId with
         | none => true
         | some m => if m.commits.isEmpty then (post.st.getMeta o.dataId).isNone && (post.st.getModel (metaKey m)).isNone
                     else (match post.st.getMeta o.dataId with
                           | some m' => m'.status = MetaComplete && m'.commits = m.commits && some m'.commit = (m.commits.getLast?.map commitFromVersion) &&
                                        -- … and points at the order it pointed at before the update: the last one the model lists
                                        (m.orders.getLast?.isNone || some m'.orderId = m.orders.getLast?) &&
                                        -- … and names the content of that version again, not the abandoned update's
                                        (match m.orders.getLast?.bind post.st.getOrder with
                                         | some lo => m'.cid = lo.cid
                                         | none => true) &&
                                        -- … and lives as long as the stored shards of its committed versions are paid for, renewals included
                                        m.orders.all (fun oid => match post.st.getOrder oid with
                                          | some lo => lo.shards.all (fun id => match post.st.getShard id with
                                              | some sh => sh.status ≠ ShardCompleted ||
                                                  sh.renewInfos.foldl (fun a ri => a + ri.duration) (sh.createdAt + sh.duration) ≤ m'.createdAt + m'.duration
                                              | none => true)
                                          | none => true)
                           | none => false)
       if refunded && shardsGone && metaOk then none
       else some ("C05", s!"clause=cleanRefund cls=none rec=order{o.id}:refund={refunded},shards={shardsGone},meta={metaOk}"))
   else []) ++
  -- C16: an accepted update names the model's latest committed version as its base
  (match op, res with
   | .store m, .ok =>
     (match pre.st.getMeta m.p.dataId with
      | some md =>
        let base := if m.p.commitId.contains BAR then (splitB m.p.commitId BAR).headD [] else m.p.commitId
        if base = md.commit then [] else
          [("C16", s!"clause=baseIsLatest cls={if base.length < md.commit.length then "partial-base" else "none"} rec=meta{m.p.dataId.take 8}")]
      | none => [])
   | _, _ => []) ++
  -- C16: the version history of a model only grows at its end: an accepted step appends one entry, or (completion of a
  -- force-push order) replaces the latest entry — every earlier entry stays where it was
  (if res = .ok then
     post.st.metas.filterMap (fun m' =>
       match pre.st.getMeta m'.dataId with
       | none => none
       | some m =>
         let a := m.commits
         let b := m'.commits
         let forcePush := match op with
           | .complete _ _ oid _ _ _ => (match pre.st.getOrder oid with | some o => o.operation = 2 && o.dataId = m.dataId | none => false)
           | _ => false
         if b = a || (b.length = a.length + 1 && b.dropLast = a) || (forcePush && b.length = a.length && b.dropLast = a.dropLast) then none
         else some ("C16", s!"clause=historyLinear cls=none rec=meta{m.dataId.take 8}:{a.length}->{b.length}"))
   else []) ++
  -- C16: identifiers are never reused and grow with creation order
  (if post.st.getOrderCount < pre.st.getOrderCount || post.st.shardCount < pre.st.shardCount then [("C16", "clause=countersMonotone cls=none")] else []) ++
  (let newOrders := post.st.orders.filter (fun o => (pre.st.getOrder o.id).isNone)
   let newShards := post.st.shards.filter (fun sh => (pre.st.getShard sh.id).isNone)
   if newOrders.any (fun o => o.id < pre.st.getOrderCount) || newShards.any (fun sh => sh.id < pre.st.shardCount)
   then [("C16", "clause=idReused cls=none")] else []) ++
  -- C18: an export / import round trip reproduces the state of every storage module
  (match op with
   | .genesis =>
     if res ≠ .ok then [("C18", "clause=roundTrip cls=export-rejected")] else
     let a := pre.st
     let b := post.st
     let lost := (if a.faults ≠ b.faults ∨ a.faultIdx ≠ b.faultIdx then ["faults"] else []) ++
                 (if a.fishing ≠ b.fishing then ["fishing"] else []) ++
                 (if a.nodeRound ≠ b.nodeRound ∧ !(a.nodeRound = some 0 ∧ b.nodeRound = none) ∧ !(a.nodeRound = none) then ["nodeRound"] else [])
     let other := (if a.orders ≠ b.orders then ["orders"] else []) ++ (if a.shards ≠ b.shards then ["shards"] else []) ++
                  (if a.getOrderCount ≠ b.getOrderCount then ["orderCount"] else []) ++ (if a.shardCount ≠ b.shardCount then ["shardCount"] else []) ++
                  (if a.metas ≠ b.metas then ["metas"] else []) ++ (if a.models ≠ b.models then ["models"] else []) ++
                  (if a.expiredData ≠ b.expiredData then ["expiredData"] else []) ++ (if a.timeoutQ ≠ b.timeoutQ then ["timeoutQ"] else []) ++
                  (if a.expiredShardQ ≠ b.expiredShardQ then ["expiredShardQ"] else []) ++ (if a.nodes ≠ b.nodes then ["nodes"] else []) ++
                  (if a.pledges ≠ b.pledges then ["pledges"] else []) ++ (if a.debts ≠ b.debts then ["debts"] else []) ++
                  (if a.pool ≠ b.pool then ["pool"] else []) ++ (if a.params ≠ b.params then ["params"] else []) ++
                  (if a.workers ≠ b.workers then ["workers"] else []) ++ (if a.did ≠ b.did then ["did"] else []) ++
                  (if a.bank ≠ b.bank then ["bank"] else [])
     (if other ≠ [] then [("C18", s!"clause=roundTrip cls=none rec={other}")] else []) ++
     (if lost ≠ [] then [("C18", s!"clause=roundTrip cls=no-genesis-field rec={lost}")] else [])
   | _ => []) ++
  -- C19
  (if res = .ok then (faultViolations pre.st post.st op).map (fun v => ("C19", s!"clause=faultReport cls=none rec={v}")) else []) ++
  -- C17: the input assumptions of the registry invariants (Properties/C17KeyPay, C17SidPay) hold of this operation in
  -- the implementation's own pre-state; a hit means the *harness* described an account id or a DID inconsistently
  (if opWfIn pre.st.did op then [] else [("C17", "clause=inputWf cls=none")]) ++
  -- C17: a binding was created although the signed proof message does not name the DID
  (match op, res with
   | .binding m, .ok => if m.proofNamesDid then [] else [("C17", "clause=proofNamesDid cls=unbound-message")]
   | _, _ => []) ++
  -- C03/C01: a package-variable residue is created by this step (it outlives the transaction)
  (if pre.global = 0 && post.global ≠ 0 then [("C03", s!"clause=globalResidue cls={residueOrigin pre op res post}")] else []) ++
  -- C20: a staking message that succeeds leaves nothing in process memory for the next role decision
  -- (`verifySuper_resets`): otherwise that decision no longer depends on committed state alone
  (if pre.global = 0 && post.global ≠ 0 && res = .ok && isStakingOp op then [("C20", "clause=residueAfterOkStaking cls=none")] else []) ++
  -- C12: every unfinished order has a pending re-examination after each block; the class names the
  -- known stop condition `height + timeout >= createdAt + duration` of HandleTimeoutOrder (finding F15)
  (let handsOver := match op with
     | .end_ => true
     | .ready .. => true   -- the gateway hands a pending order to providers: its first check is scheduled now
     | .store _ => true
     | _ => false
   if handsOver && res = .ok then
    -- after the end-blocker of height h an entry must lie beyond h; inside the block the entry at h is still to come
    let stuck := post.st.orders.filter (fun o => unfinished post.st o &&
      !(post.st.timeoutQ.any (fun e => ((e.1 : Int) > post.st.h || (!isBlockEnd op && (e.1 : Int) = post.st.h)) && e.2.contains o.id)))
    -- (the order as it was before the step: a pending order is not yet "handed to providers")
    let wasStuck := fun (o : Order) => match pre.st.getOrder o.id with
      | some o0 => unfinished pre.st o0 && !(pre.st.timeoutQ.any (fun e => (e.1 : Int) ≥ pre.st.h && e.2.contains o.id))
      | none => false
    (stuck.filter (fun o => !wasStuck o)).map (fun o =>
      ("C12", s!"clause=timeoutPending cls={if isBlockEnd op && addU64 (toU64 post.st.h) o.timeout ≥ addU64 o.createdAt o.duration then "near-end-of-life" else "none"} rec=order{o.id}"))
   else []) ++
  -- C12: an order examined by the timeout handler in this block leaves the schedule only when it
  -- is gone or every replica it is still paid for is stored (checked while no stored shard can have expired yet)
  (if isBlockEnd op && res = .ok then
    let examined := (Map.find? pre.st.timeoutQ post.st.h.toNat).getD []
    examined.eraseDups.filterMap (fun id =>
      match post.st.getOrder id with
      | none => none
      | some o =>
        if post.st.timeoutQ.any (fun e => (e.1 : Int) > post.st.h && e.2.contains id) then none else
        -- a stored shard cannot have expired before createdAt + duration; later it may have (timeout > duration)
        if post.st.h ≥ ((o.createdAt + o.duration : Nat) : Int) then none else
        let stored := (o.shards.filterMap post.st.getShard).filter (fun sh => sh.status = ShardCompleted)
        if (stored.length : Int) ≥ o.replica then none
        else some ("C12", s!"clause=leftScheduleUnstored cls=none rec=order{id}:replica={o.replica},stored={stored.length}"))
   else []) ++
  -- C07: the collateral recorded for a live shard is only ever raised (renewal top-up); what is
  -- released at its end is what was taken
  (if res = .ok then
    pre.st.shards.filterMap (fun sh =>
      match post.st.getShard sh.id with
      | some sh' => if sh.status = ShardCompleted && sh'.status = ShardCompleted && sh'.pledge < sh.pledge
                    then some ("C07", s!"clause=shardCollateralKept cls=none rec=shard{sh.id}:{sh.pledge}->{sh'.pledge}") else none
      | none => none)
   else []) ++
  -- C07: when stored shards of a provider end (termination, cancellation, expiry) the provider gets their collateral
  -- back, less exactly the collateral debt that is struck off its record in the same step
  (let releasing := match op with
     | .terminate .. => true
     | .cancel .. => true
     | .end_ => true
     | _ => false
   if res = .ok && releasing then
     let gone := pre.st.shards.filter (fun sh => sh.status = ShardCompleted && (post.st.getShard sh.id).isNone)
     (gone.map (·.sp)).eraseDups.filterMap (fun sp =>
       let due := sumInt ((gone.filter (·.sp = sp)).map (·.pledge))
       let got := post.st.bal sp - pre.st.bal sp
       let struck := (pre.st.getDebt sp).getD 0 - (post.st.getDebt sp).getD 0
       if got + struck = due then none
       else some ("C07", s!"clause=releaseReturnsCollateral cls=none rec=sp{sp}:due={due},paid={got},debt-struck={struck}"))
   else []) ++
  -- C08: coins are created only by the begin blocker, at most the configured reward of the current
  -- halving age, and the cumulative reward counter grows by exactly what was minted
  (let minted := post.st.supply - pre.st.supply
   match op with
   | .begin_ =>
     if res ≠ .ok || minted = 0 then [] else
     (match pre.st.pool with
      | none => [("C08", s!"clause=mintWithinSchedule cls=none rec=no-pool:{minted}")]
      | some pool =>
        (match getRewardAge pool with
         | .ok age =>
           if pool.totalPledged ≠ 0 && 0 < minted && minted ≤ ((pre.st.params.blockReward.toNat >>> age : Nat) : Int) then []
           else [("C08", s!"clause=mintWithinSchedule cls=none rec=minted={minted},cap={pre.st.params.blockReward.toNat >>> age}")]
         | .error _ => [("C08", s!"clause=mintWithinSchedule cls=none rec=no-age:{minted}")]) ++
        (match post.st.pool with
         | some pool' => if pool'.totalReward - pool.totalReward = minted then [] else [("C08", s!"clause=rewardCounter cls=none rec=minted={minted},counted={pool'.totalReward - pool.totalReward}")]
         | none => [("C08", "clause=rewardCounter cls=none rec=pool-gone")]))
   | .genesis => []
   | .unmodelled _ => []   -- validator slashing by x/staking burns bonded coins: not storage code
   | _ => if minted ≠ 0 then [("C08", s!"clause=mintOutsideBegin cls=none rec={minted}")] else []) ++
  -- C08: a claim pays out the whole-coin part of the settled reward: what stays recorded is a fraction
  (match op, res with
   | .claim c, .ok =>
     (match post.st.getPledge c with
      | some p => if 0 ≤ p.reward && p.reward < precision then [] else [("C08", s!"clause=claimLeavesFraction cls=none rec=sp{c}:{p.reward}")]
      | none => [])
   | _, _ => []) ++
  -- C08: "claiming pays … less any collateral debt recorded against it": while a debt remains after the claim, everything
  -- claimed went into it — the provider was paid nothing
  (match op, res with
   | .claim c, .ok =>
     let paid := post.st.bal c - pre.st.bal c
     let debt' := (post.st.getDebt c).getD 0
     if debt' > 0 && paid ≠ 0 then [("C08", s!"clause=claimLessDebt cls=none rec=sp{c}:paid={paid},debt-left={debt'}")] else []
   | _, _ => []) ++
  -- C08: whenever a provider's accrued reward or capacity changes, its reward debt is re-based on the accumulator at the
  -- new capacity — what was accrued and credited is never credited a second time (fault recovery zeroes both by design)
  (match op with
   | .recover .. => []
   | .genesis => []
   | _ =>
     if res = .ok then
       (match post.st.pool with
        | some pool' => post.st.pledges.filterMap (fun p' =>
            let rebased := p'.rewardDebt = Dec.mulInt pool'.accRewardPerByte p'.totalStorage
            match pre.st.getPledge p'.creator with
            | some p => if (p'.reward ≠ p.reward || p'.totalStorage ≠ p.totalStorage) && !rebased
                        then some ("C08", s!"clause=rewardDebtRebased cls=none rec=sp{p'.creator}") else none
            | none => if !rebased then some ("C08", s!"clause=rewardDebtRebased cls=none rec=sp{p'.creator}:new") else none)
        | none => [])
     else []) ++
  -- C12: a shard the timeout mechanism has retired (handed to a replacement provider) stays retired: an accepted Complete
  -- stores a shard that was waiting for it, or takes over a migration — nothing else
  (match op, res with
   | .complete _ p oid _ _ _, .ok =>
     (match pre.st.getOrder oid with
      | some o =>
        (match getOrderShardBySP pre.st o p with
         | some sh => if sh.status = ShardWaiting || sh.status = ShardMigrating then []
                      else [("C12", s!"clause=completeOnlyPending cls=none rec=shard{sh.id}:status={sh.status}")]
         | none => [])
      | none => [])
   | _, _ => []) ++
  -- C04: storage income accrues with bytes x blocks stored and in no other way: within a block (the height does not move)
  -- what a provider has earned so far — recorded reward plus rate x blocks since the last settlement — is changed by no
  -- operation except the provider's own claim, whatever shards it is given or loses
  (match op with
   | .advance .. => []
   | _ =>
     if res = .ok && post.st.h = pre.st.h then
       post.st.workers.filterMap (fun w' =>
         let claimed : Bool := match op with | .claim c => decide (c = w'.sp) | _ => false
         if claimed then none else
         let earned' := w'.reward + Dec.mulInt w'.incomePerSecond (post.st.h - w'.lastRewardAt)
         let earned := match pre.st.getWorker w'.sp with
           | some w => w.reward + Dec.mulInt w.incomePerSecond (pre.st.h - w.lastRewardAt)
           | none => 0
         if earned' = earned then none else some ("C04", s!"clause=incomeContinuous cls=none rec=sp{w'.sp}:{earned}->{earned'}"))
     else []) ++
  -- C04: what a termination, cancellation or force-push settlement pays back to a client never exceeds
  -- what the orders that end in that step were charged
  (let refundOps := match op with
     | .terminate .. => true
     | .cancel .. => true
     | .complete .. => true
     | _ => false
   if res = .ok && refundOps then
     let ended := pre.st.orders.filter (fun o => (post.st.getOrder o.id).isNone)
     let payees := (ended.filterMap (fun o => pre.st.paymentAddress (if o.paymentDid ≠ 0 && o.status ≠ OrderCompleted then o.paymentDid else o.owner))).eraseDups
     payees.filterMap (fun a =>
       let charged := sumInt ((ended.filter (fun o =>
         pre.st.paymentAddress o.owner = some a || pre.st.paymentAddress o.paymentDid = some a)).map (·.amount))
       let got := post.st.bal a - pre.st.bal a
       if got ≤ charged then none else some ("C04", s!"clause=refundWithinCharge cls=none rec=acct{a}:refund={got},charged={charged}"))
   else []) ++
  -- C07: capacity is credited and debited at exactly the price paid or returned: an accepted AddVstorage / RemoveVstorage
  -- changes the provider's pledged capacity (bytes) and its capacity collateral (coins) in the fixed proportion of the unit
  -- price, so that every byte credited can later be withdrawn for the coins that bought it
  (let capOp : Option Addr := match op with
     | .addv c _ => some c
     | .remv c _ => some c
     | _ => none
   match capOp with
   | some c =>
     if res = .ok then
       let st0 : Int := ((pre.st.getPledge c).map (·.totalStorage)).getD 0
       let pl0 : Int := ((pre.st.getPledge c).map (·.totalStoragePledged)).getD 0
       let st1 : Int := ((post.st.getPledge c).map (·.totalStorage)).getD 0
       let pl1 : Int := ((post.st.getPledge c).map (·.totalStoragePledged)).getD 0
       if Dec.mulInt unitPriceDec (st1 - st0) = Dec.ofInt (pl1 - pl0) then [] else
         [("C07", s!"clause=capacityPricedExactly cls=none rec=sp{c}:bytes={st1 - st0},coins={pl1 - pl0}")]
     else []
   | none => []) ++
  -- C04 / C13: an order leaves a model's order list only settled — a force-push terminates (refunds, releases) every order
  -- of the version it replaces before dropping it from the list, so none of them is left in the order store, paid for and
  -- unreachable from the model
  (if res = .ok then
     pre.st.metas.flatMap (fun m =>
       match post.st.getMeta m.dataId with
       | none => []
       | some m' =>
         let dropped := m.orders.filter (fun id => !m'.orders.contains id && (post.st.getOrder id).isSome)
         if dropped.isEmpty then [] else
           [("C04", s!"clause=droppedOrderSettled cls=none rec=orders{dropped}"),
            ("C13", s!"clause=droppedOrderSettled cls=none rec=orders{dropped}")])
   else []) ++
  -- C04 / C05: an accepted Store moves into the order escrow exactly the amount the order it creates records (refunds and
  -- settlements are computed from the record: a record below the charge means the payer is never made whole), and an
  -- accepted Renew moves into the market escrow exactly what the renewal orders record
  (match op with
   | .store _ =>
     if res = .ok then
       let newOrders := post.st.orders.filter (fun o => (pre.st.getOrder o.id).isNone)
       let recorded := sumInt (newOrders.map (·.amount))
       let moved := post.st.bal e.modOrder - pre.st.bal e.modOrder
       if moved = recorded then [] else
         [("C04", s!"clause=chargedAsRecorded cls=none rec=store:moved={moved},recorded={recorded}"),
          ("C05", s!"clause=chargedAsRecorded cls=none rec=store:moved={moved},recorded={recorded}")]
     else []
   | .renew .. =>
     if res = .ok then
       let newOrders := post.st.orders.filter (fun o => (pre.st.getOrder o.id).isNone)
       let recorded := sumInt (newOrders.map (·.amount))
       let moved := post.st.bal e.modMarket - pre.st.bal e.modMarket
       if moved = recorded then [] else
         [("C04", s!"clause=chargedAsRecorded cls=none rec=renew:moved={moved},recorded={recorded}")]
     else []
   | _ => []) ++
  -- C15: providers newly given a shard of an order are distinct from one another and from every
  -- provider that already holds or timed out on a shard of it, were eligible when chosen, and are
  -- not more than requested
  (if res = .ok then
    let newShards := post.st.shards.filter (fun sh => (pre.st.getShard sh.id).isNone)
    let chosenBySelection := match op with
      | .store _ => true
      | .ready .. => true
      | .migrate .. => true
      | .end_ => true
      | _ => false
    if !chosenBySelection then [] else
    (newShards.map (·.orderId)).eraseDups.flatMap (fun oid =>
      let mine := newShards.filter (·.orderId = oid)
      let sps := mine.map (·.sp)
      let old := (pre.st.shards.filter (fun sh => sh.orderId = oid)).map (·.sp)
      let dup := !(sps.eraseDups.length = sps.length) || sps.any (fun a => old.contains a)
      let requested : Int := match op with
        | .store m => m.p.replica
        | .ready .. => ((pre.st.getOrder oid).map (·.replica)).getD 0
        | .migrate .. => (mine.length : Int)     -- one destination per migrated shard: only distinctness and eligibility apply
        | _ => ((pre.st.shards.filter (fun sh => sh.orderId = oid && sh.status = ShardWaiting)).length : Int)
      let over := (mine.length : Int) > requested
      -- an update of stored data first re-uses the providers that already hold it: those are not newly chosen
      let holders : List Addr := match op with
        | .store m => (findSPByDataId pre.st m.p.dataId).map (·.creator)
        | .ready .. => (match pre.st.getOrder oid with
                        | some o => (findSPByDataId pre.st o.dataId).map (·.creator)
                        | none => [])
        | _ => []
      let inel := (mine.filter (fun sh => !holders.contains sh.sp)).filter (fun sh =>
        match pre.st.getNode sh.sp, pre.st.getPledge sh.sp with
        | some n, some p => !(ST_SELECT &&& n.status = ST_SELECT && n.reputation ≥ 8000 && !(p.totalStorage - p.usedStorage < (toI64 sh.size)))
        | _, _ => true)
      -- an order that was handed to providers at creation (or by Ready) got exactly the replicas it asked and paid for
      let under := match op, post.st.getOrder oid with
        | .store _, some o => (pre.st.getOrder oid).isNone && (o.shards.length : Int) < o.replica
        | .ready .., some o => (o.shards.length : Int) < o.replica
        | _, _ => false
      (if under then [("C15", s!"clause=placementUnder cls=none rec=order{oid}:{mine.length}<{requested}")] else []) ++
      (if dup then [("C15", s!"clause=placementDistinct cls=none rec=order{oid}:{sps}")] else []) ++
      (if over then [("C15", s!"clause=placementCount cls=none rec=order{oid}:{mine.length}>{requested}")] else []) ++
      (if inel ≠ [] then [("C15", s!"clause=placementEligible cls=none rec=order{oid}:{inel.map (·.sp)}")] else []))
   else [])

end SaoVerif.Monitors
