import SaoVerif.Spec.Inv
/-! Executable monitors: the decidable property predicates evaluated on implementation states
    and (pre, op, res, post) steps. Each hit is `(property id, "clause=<name> …")`. -/
namespace SaoVerif.Monitors
open SaoVerif SaoVerif.Spec

def chk (b : Bool) (prop clause : String) (detail : String := "") : List (String × String) :=
  if b then [] else [(prop, s!"clause={clause} {detail}")]

def checkState (e : Env) (s : State) : List (String × String) :=
  chk (ordersListExisting s) "C13" "ordersListExisting" ++
  chk (shardsListedByOrder s) "C13" "shardsListedByOrder" ++
  chk (completedScheduled s) "C13" "completedScheduled" ++
  chk (aliasesAgree s) "C13" "aliasesAgree" ++
  chk (s.pledges.all (usedAgrees s)) "C14" "usedAgrees" ++
  chk (s.pledges.all (shardPledgeAgrees s)) "C14" "shardPledgeAgrees" ++
  chk ((providersOf s).all (workerAgrees s)) "C14" "workerAgrees" ++
  chk (poolAgrees s) "C14" "poolAgrees" ++
  chk (usedBounds s) "C07" "usedBounds" ++
  chk (idsFresh s) "C16" "idsFresh" ++
  chk (oneInFlight s) "C16" "oneInFlight" ++
  chk (superInv s) "C20" "superInv" ++
  chk (solventOrder e s) "C06" "solventOrder" ++
  chk (solventNode e s) "C06" "solventNode"

def isBlockEnd : Op → Bool
  | .end_ => true
  | _ => false

def checkStep (e : Env) (pre : State) (op : Op) (res : Res) (post : State) : List (String × String) :=
  let _ := e; let _ := pre
  -- C02: nothing may hang; blockers may not panic
  (match res with
   | .hang => [("C02", s!"clause=hang site={match (step e pre op).1 with | .hang => "model-predicted" | _ => "unpredicted"}")]
   | .panic => [("C02", "clause=blocker-panic")]
   | _ => []) ++
  (if isBlockEnd op && res = .ok then chk (timeoutPending post) "C12" "timeoutPending" else [])

end SaoVerif.Monitors
