/-! The decision skeletons the model was written and validated against (written by `extract -expect`, committed; compared with the regenerated ones by the `Cxx_decision_skeleton_as_modelled` theorems).
    One definition per source file: (function, branching constructs in source order — `if cond => how the branch ends`,
    switch / case, loops). -/
namespace SaoVerif.Expected.Skel

def app_app_go : List (String × List String) := [
  ("*App.AppCodec", []),
  ("*App.BeginBlocker", []),
  ("*App.BlockedModuleAccountAddrs", []),
  ("*App.EndBlocker", []),
  ("*App.GetKey", []),
  ("*App.GetMemKey", []),
  ("*App.GetSubspace", []),
  ("*App.GetTKey", []),
  ("*App.InitChainer", ["if err != nil => panic"]),
  ("*App.InterfaceRegistry", []),
  ("*App.LegacyAmino", []),
  ("*App.LoadHeight", []),
  ("*App.ModuleAccountAddrs", ["range maccPerms"]),
  ("*App.Name", []),
  ("*App.RegisterAPIRoutes", []),
  ("*App.RegisterTendermintService", []),
  ("*App.RegisterTxService", []),
  ("*App.SimulationManager", []),
  ("*App.setupUpgradeHandlers", ["if err != nil => panic", "if app.UpgradeKeeper.IsSkipHeight(upgradeInfo.Height) => return"]),
  ("App.GetBaseApp", []),
  ("GetMaccPerms", ["range maccPerms"]),
  ("New", ["if err != nil => panic", "if loadLatest", "if err != nil"]),
  ("getGovProposalHandlers", []),
  ("init", ["if err != nil => panic"]),
  ("initParamsKeeper", [])
]

def app_export_go : List (String × List String) := [
  ("*App.ExportAppStateAndValidators", ["if forZeroHeight", "if err != nil => return err", "if err != nil => return err"]),
  ("*App.prepForZeroHeightGenesis", ["if len(jailAllowedAddrs) > 0", "range jailAllowedAddrs", "if err != nil", "func literal", "if err != nil => panic", "range dels", "if err != nil => panic", "func literal", "if err != nil => panic", "range dels", "if err != nil => panic", "if err != nil => panic", "func literal", "range red.Entries", "func literal", "range ubd.Entries", "for iter.Valid()", "if !found => panic", "if applyAllowedAddrs && !allowedAddrsMap[addr.String()]", "if err != nil => panic", "func literal"])
]

def app_genesis_go : List (String × List String) := [
  ("NewDefaultGenesisState", [])
]

def x_did_genesis_go : List (String × List String) := [
  ("ExportGenesis", []),
  ("InitGenesis", ["range genState.AccountListList", "range genState.AccountAuthList", "range genState.SidDocumentList", "range genState.SidDocumentVersionList", "range genState.PastSeedsList", "range genState.PaymentAddressList", "range genState.AccountIdList", "range genState.DidList", "range genState.KidList", "range genState.DidBalancesList"])
]

def x_did_keeper_account_auth_go : List (String × List String) := [
  ("Keeper.GetAccountAuth", ["if b == nil => return false"]),
  ("Keeper.GetAllAccountAuth", ["for iterator.Valid()"]),
  ("Keeper.RemoveAccountAuth", []),
  ("Keeper.SetAccountAuth", [])
]

def x_did_keeper_account_id_go : List (String × List String) := [
  ("Keeper.GetAccountId", ["if b == nil => return false"]),
  ("Keeper.GetAllAccountId", ["for iterator.Valid()"]),
  ("Keeper.RemoveAccountId", []),
  ("Keeper.SetAccountId", [])
]

def x_did_keeper_account_list_go : List (String × List String) := [
  ("Keeper.GetAccountList", ["if b == nil => return false"]),
  ("Keeper.GetAllAccountList", ["for iterator.Valid()"]),
  ("Keeper.RemoveAccountList", []),
  ("Keeper.SetAccountList", [])
]

def x_did_keeper_did_go : List (String × List String) := [
  ("Keeper.GetAllDid", ["for iterator.Valid()"]),
  ("Keeper.GetDid", ["if b == nil => return false"]),
  ("Keeper.RemoveDid", []),
  ("Keeper.SetDid", [])
]

def x_did_keeper_did_balances_go : List (String × List String) := [
  ("Keeper.GetAllDidBalances", ["for iterator.Valid()"]),
  ("Keeper.GetDidBalances", ["if b == nil => return false"]),
  ("Keeper.RemoveDidBalances", []),
  ("Keeper.SetDidBalances", [])
]

def x_did_keeper_did_management_go : List (String × List String) := [
  ("Keeper.CreatorIsBoundToDid", ["if !found => return types.ErrInvalidCreator", "if storedDid.Did == did => return"]),
  ("Keeper.GetCosmosPaymentAddress", ["if !found => return types.ErrPayAddrNotSet"]),
  ("Keeper.SendCoinsFromModuleToDidBalances", ["if amount.IsZero() => return", "if found", "if err != nil => return err"]),
  ("Keeper.ValidDid", ["if strings.Contains(builtinDids, did) => return", "if err != nil => return status.Error(codes.InvalidArgument, err.Error())", "switch parsedDid.Method", "case \"key\"", "if !found => return status.Error(codes.NotFound, \"payment address not found\")", "case \"sid\"", "if !found => return status.Error(codes.NotFound, \"sid document not found\")", "if !found => return status.Error(codes.Aborted, \"sidId should be a rootDocId\")", "if version != \"\"", "if !inList(version, versionList.VersionList) => return status.Error(codes.NotFound, \"sid version not found\")", "if !found => return status.Error(codes.NotFound, \"versioned sid document not found\")", "if !found => return status.Error(codes.NotFound, \"payment address not found\")", "if !found => return status.Error(codes.NotFound, \"account list not found\")", "if len(versionList.VersionList) > 1 && len(pastSeeds.Seeds) + 1 != len(versionList.VersionList) || found && len(versionList.VersionList) == 1 => return status.Error(codes.Aborted, \"Invalid pastSeeds length\")"])
]

def x_did_keeper_grpc_query_account_auth_go : List (String × List String) := [
  ("Keeper.AccountAuth", ["if req == nil => return status.Error(codes.InvalidArgument, \"invalid request\")", "if !found => return status.Error(codes.NotFound, \"not found\")"]),
  ("Keeper.AccountAuthAll", ["if req == nil => return status.Error(codes.InvalidArgument, \"invalid request\")", "func literal", "if err != nil => return err", "if err != nil => return status.Error(codes.Internal, err.Error())"])
]

def x_did_keeper_grpc_query_account_id_go : List (String × List String) := [
  ("Keeper.AccountId", ["if req == nil => return status.Error(codes.InvalidArgument, \"invalid request\")", "if !found => return status.Error(codes.NotFound, \"not found\")"]),
  ("Keeper.AccountIdAll", ["if req == nil => return status.Error(codes.InvalidArgument, \"invalid request\")", "func literal", "if err != nil => return err", "if err != nil => return status.Error(codes.Internal, err.Error())"])
]

def x_did_keeper_grpc_query_account_list_go : List (String × List String) := [
  ("Keeper.AccountList", ["if req == nil => return status.Error(codes.InvalidArgument, \"invalid request\")", "if !found => return status.Error(codes.NotFound, \"not found\")"]),
  ("Keeper.AccountListAll", ["if req == nil => return status.Error(codes.InvalidArgument, \"invalid request\")", "func literal", "if err != nil => return err", "if err != nil => return status.Error(codes.Internal, err.Error())"])
]

def x_did_keeper_grpc_query_did_go : List (String × List String) := [
  ("Keeper.Did", ["if req == nil => return status.Error(codes.InvalidArgument, \"invalid request\")", "if !found => return status.Error(codes.NotFound, \"not found\")"]),
  ("Keeper.DidAll", ["if req == nil => return status.Error(codes.InvalidArgument, \"invalid request\")", "func literal", "if err != nil => return err", "if err != nil => return status.Error(codes.Internal, err.Error())"])
]

def x_did_keeper_grpc_query_did_balances_go : List (String × List String) := [
  ("Keeper.DidBalances", ["if req == nil => return status.Error(codes.InvalidArgument, \"invalid request\")", "if !found => return status.Error(codes.NotFound, \"not found\")"]),
  ("Keeper.DidBalancesAll", ["if req == nil => return status.Error(codes.InvalidArgument, \"invalid request\")", "func literal", "if err != nil => return err", "if err != nil => return status.Error(codes.Internal, err.Error())"])
]

def x_did_keeper_grpc_query_get_all_account_auth_go : List (String × List String) := [
  ("Keeper.GetAllAccountAuths", ["if req == nil => return status.Error(codes.InvalidArgument, \"invalid request\")", "if !found => return status.Error(codes.NotFound, \"account list not found\")", "range accountList.AccountDids", "if found"])
]

def x_did_keeper_grpc_query_kid_go : List (String × List String) := [
  ("Keeper.Kid", ["if req == nil => return status.Error(codes.InvalidArgument, \"invalid request\")", "if !found => return status.Error(codes.NotFound, \"not found\")"]),
  ("Keeper.KidAll", ["if req == nil => return status.Error(codes.InvalidArgument, \"invalid request\")", "func literal", "if err != nil => return err", "if err != nil => return status.Error(codes.Internal, err.Error())"])
]

def x_did_keeper_grpc_query_params_go : List (String × List String) := [
  ("Keeper.Params", ["if req == nil => return status.Error(codes.InvalidArgument, \"invalid request\")"])
]

def x_did_keeper_grpc_query_past_seeds_go : List (String × List String) := [
  ("Keeper.PastSeeds", ["if req == nil => return status.Error(codes.InvalidArgument, \"invalid request\")", "if !found => return status.Error(codes.NotFound, \"not found\")"]),
  ("Keeper.PastSeedsAll", ["if req == nil => return status.Error(codes.InvalidArgument, \"invalid request\")", "func literal", "if err != nil => return err", "if err != nil => return status.Error(codes.Internal, err.Error())"])
]

def x_did_keeper_grpc_query_payment_address_go : List (String × List String) := [
  ("Keeper.PaymentAddress", ["if req == nil => return status.Error(codes.InvalidArgument, \"invalid request\")", "if !found => return status.Error(codes.NotFound, \"not found\")"]),
  ("Keeper.PaymentAddressAll", ["if req == nil => return status.Error(codes.InvalidArgument, \"invalid request\")", "func literal", "if err != nil => return err", "if err != nil => return status.Error(codes.Internal, err.Error())"])
]

def x_did_keeper_grpc_query_sid_document_go : List (String × List String) := [
  ("Keeper.SidDocument", ["if req == nil => return status.Error(codes.InvalidArgument, \"invalid request\")", "if !found => return status.Error(codes.NotFound, \"not found\")"]),
  ("Keeper.SidDocumentAll", ["if req == nil => return status.Error(codes.InvalidArgument, \"invalid request\")", "func literal", "if err != nil => return err", "if err != nil => return status.Error(codes.Internal, err.Error())"])
]

def x_did_keeper_grpc_query_sid_document_version_go : List (String × List String) := [
  ("Keeper.SidDocumentVersion", ["if req == nil => return status.Error(codes.InvalidArgument, \"invalid request\")", "if !found => return status.Error(codes.NotFound, \"not found\")"]),
  ("Keeper.SidDocumentVersionAll", ["if req == nil => return status.Error(codes.InvalidArgument, \"invalid request\")", "func literal", "if err != nil => return err", "if err != nil => return status.Error(codes.Internal, err.Error())"])
]

def x_did_keeper_grpc_query_validate_did_go : List (String × List String) := [
  ("Keeper.ValidateDid", ["if req == nil => return status.Error(codes.InvalidArgument, \"invalid request\")", "if err != nil => return err"])
]

def x_did_keeper_keeper_go : List (String × List String) := [
  ("Keeper.Logger", []),
  ("NewKeeper", ["if !ps.HasKeyTable()"])
]

def x_did_keeper_kid_go : List (String × List String) := [
  ("Keeper.GetAllKid", ["for iterator.Valid()"]),
  ("Keeper.GetKid", ["if b == nil => return false"]),
  ("Keeper.RemoveKid", []),
  ("Keeper.SetKid", [])
]

def x_did_keeper_migrations_go : List (String × List String) := [
  ("Migrator.Migrate1to2", []),
  ("NewMigrator", [])
]

def x_did_keeper_msg_server_go : List (String × List String) := [
  ("NewMsgServerImpl", [])
]

def x_did_keeper_msg_server_binding_go : List (String × List String) := [
  ("*Keeper.verifyBindingProof", ["if caip10.Network == DEFAULT_NETWORK && caip10.Chain == ctx.ChainID() => return", "if splitedSig[0] != \"tendermint/PubKeySecp256k1\" => return types.ErrInvalidBindingProof", "if err != nil => return types.ErrInvalidBindingProof", "if err != nil => return types.ErrInvalidBindingProof", "if address != caip10.Address => return types.ErrInvalidBindingProof", "if err != nil => return types.ErrInvalidBindingProof", "if !pubkey.VerifySignature(signBytes, sigBytes) => return types.ErrInvalidBindingProof", "if caip10.Network == \"eip155\" => return", "if err != nil => return types.ErrInvalidBindingProof", "if err != nil => return types.ErrInvalidBindingProof", "if addr != caip10.Address => return types.ErrInvalidBindingProof"]),
  ("msgServer.Binding", ["if \"did:sid:\" + rootDocId != did => return types.ErrInconsistentDid", "if proof.Timestamp + EXPIRE_DURATION < uint64(now) => return types.ErrOutOfDate", "if err != nil => return types.ErrInvalidAccountId", "if foundAccList", "range accountList.AccountDids", "if ad == accAuth.AccountDid => return types.ErrAuthExists", "if found => return types.ErrAuthExists", "if foundAccId && storedAccountId.AccountId != accId => return types.ErrInvalidAccountId", "if found => return types.ErrBindingExists", "if err != nil => return err", "if found", "if err != nil => return err", "if err != nil => return types.ErrInvalidKeys", "if newDocId != rootDocId || did != \"did:sid:\" + newDocId => return types.ErrInconsistentDocId", "if found => return types.ErrDocExists", "if caip10.Network == DEFAULT_NETWORK && caip10.Chain == ctx.ChainID()", "if !found", "if !foundAccList", "if !foundAccId"])
]

def x_did_keeper_msg_server_update_go : List (String × List String) := [
  ("msgServer.Update", ["if err != nil => return err", "if msg.Timestamp + EXPIRE_DURATION < uint64(now) => return types.ErrOutOfDate", "if len(removeList) == 0 => return types.ErrNoNeedToUpdate", "if len(updateList) == 0 => return types.ErrUpdateAccAuthEmpty", "if !found => return types.ErrAccountListNotFound", "if len(accountList.AccountDids) != len(removeList) + len(updateList) => return types.ErrInvalidAuthCount", "range accountList.AccountDids", "if !inList(accountDid, removeList) && !inUpdateList(accountDid, updateList) => return types.ErrUnhandledAccountDid", "if foundPastSeeds && inList(msg.PastSeed, ps.Seeds) => return types.ErrSeedExists", "if !found => return types.ErrPayAddrNotSet", "range removeList", "if !found => return types.ErrAccountIdNotFound", "if err != nil => return types.ErrInvalidAccountId", "if caip10.Network == DEFAULT_NETWORK && caip10.Chain == ctx.ChainID() && caip10.Address == payAddr.Address => return types.ErrUnbindPayAddr", "if err != nil => return types.ErrInvalidDid", "if inList(newDocId, versions.VersionList) => return types.ErrDocExists", "if found => return types.ErrDocExists", "if err != nil => return types.ErrInvalidKeys", "if newDocId != calDocId => return types.ErrInconsistentDocId", "range removeAccId", "range removeList", "range updateList", "range removeList", "range accountList.AccountDids", "if ad == toRemove => break", "if foundPastSeeds"])
]

def x_did_keeper_msg_server_update_payment_address_go : List (String × List String) := [
  ("msgServer.UpdatePaymentAddress", ["if err != nil => return types.ErrInvalidDid", "if err != nil => return types.ErrInvalidAccountId", "if found", "if did.Method == \"key\" => return types.ErrChangePayAddr", "if OldAddr.Address == caip10.Address => return types.ErrSamePayAddr", "if err != nil && did.Method != \"key\" => return err", "if caip10.Network == DEFAULT_NETWORK && caip10.Chain == ctx.ChainID()", "switch did.Method", "case \"sid\"", "if !found => return types.ErrBindingNotFound", "if msg.Did != storedDid.Did => return types.ErrInconsistentDid", "case \"key\"", "if caip10.Address != msg.Creator => return types.ErrInvalidAccountId", "if found => return types.ErrKidExist", "default"])
]

def x_did_keeper_params_go : List (String × List String) := [
  ("Keeper.GetBuiltinDids", []),
  ("Keeper.GetParams", []),
  ("Keeper.SetBuiltinDids", []),
  ("Keeper.SetParams", [])
]

def x_did_keeper_past_seeds_go : List (String × List String) := [
  ("Keeper.GetAllPastSeeds", ["for iterator.Valid()"]),
  ("Keeper.GetPastSeeds", ["if b == nil => return false"]),
  ("Keeper.RemovePastSeeds", []),
  ("Keeper.SetPastSeeds", [])
]

def x_did_keeper_payment_address_go : List (String × List String) := [
  ("Keeper.GetAllPaymentAddress", ["for iterator.Valid()"]),
  ("Keeper.GetPaymentAddress", ["if b == nil => return false"]),
  ("Keeper.RemovePaymentAddress", []),
  ("Keeper.SetPaymentAddress", [])
]

def x_did_keeper_sid_document_go : List (String × List String) := [
  ("Keeper.GetAllSidDocument", ["for iterator.Valid()"]),
  ("Keeper.GetSidDocument", ["if b == nil => return false"]),
  ("Keeper.RemoveSidDocument", []),
  ("Keeper.SetSidDocument", [])
]

def x_did_keeper_sid_document_version_go : List (String × List String) := [
  ("Keeper.GetAllSidDocumentVersion", ["for iterator.Valid()"]),
  ("Keeper.GetSidDocumentVersion", ["if b == nil => return false"]),
  ("Keeper.RemoveSidDocumentVersion", []),
  ("Keeper.SetSidDocumentVersion", [])
]

def x_did_keeper_utils_go : List (String × List String) := [
  ("CalculateDocId", ["range keys", "if err != nil => return err"]),
  ("GetSignData", []),
  ("getVersionInfo", ["range strings.Split(query, \"&\")", "if strings.Contains(q, \"versionId\") || strings.Contains(q, \"version-id\") => break"]),
  ("inList", ["range list", "if v == obj => return true"]),
  ("inUpdateList", ["range list", "if v.AccountDid == did => return true"]),
  ("parseAcccountId", ["if err != nil => return", "if ok => return"])
]

def x_did_module_go : List (String × List String) := [
  ("AppModule.BeginBlock", []),
  ("AppModule.ConsensusVersion", []),
  ("AppModule.EndBlock", []),
  ("AppModule.ExportGenesis", []),
  ("AppModule.InitGenesis", []),
  ("AppModule.LegacyQuerierHandler", []),
  ("AppModule.QuerierRoute", []),
  ("AppModule.RegisterInvariants", []),
  ("AppModule.RegisterServices", ["if err != nil => panic"]),
  ("AppModule.Route", []),
  ("AppModuleBasic.DefaultGenesis", []),
  ("AppModuleBasic.GetQueryCmd", []),
  ("AppModuleBasic.GetTxCmd", []),
  ("AppModuleBasic.Name", []),
  ("AppModuleBasic.RegisterGRPCGatewayRoutes", []),
  ("AppModuleBasic.RegisterInterfaces", []),
  ("AppModuleBasic.RegisterLegacyAminoCodec", []),
  ("AppModuleBasic.ValidateGenesis", ["if err != nil => return fmt.Errorf(\"failed to unmarshal %s genesis state: %w\", types.ModuleName, err)"]),
  ("NewAppModule", []),
  ("NewAppModuleBasic", [])
]

def x_did_module_simulation_go : List (String × List String) := [
  ("AppModule.GenerateGenesisState", ["range simState.Accounts"]),
  ("AppModule.ProposalContents", []),
  ("AppModule.RandomizedParams", []),
  ("AppModule.RegisterStoreDecoder", []),
  ("AppModule.WeightedOperations", ["func literal", "func literal", "func literal"])
]

def x_did_types_codec_go : List (String × List String) := [
  ("RegisterCodec", []),
  ("RegisterInterfaces", [])
]

def x_did_types_genesis_go : List (String × List String) := [
  ("DefaultGenesis", []),
  ("GenesisState.Validate", ["range gs.AccountListList", "if ok => return fmt.Errorf(\"duplicated index for accountList\")", "range gs.AccountAuthList", "if ok => return fmt.Errorf(\"duplicated index for accountAuth\")", "range gs.SidDocumentList", "if ok => return fmt.Errorf(\"duplicated index for sidDocument\")", "range gs.SidDocumentVersionList", "if ok => return fmt.Errorf(\"duplicated index for sidDocumentVersion\")", "range gs.PastSeedsList", "if ok => return fmt.Errorf(\"duplicated index for pastSeeds\")", "range gs.PaymentAddressList", "if ok => return fmt.Errorf(\"duplicated index for paymentAddress\")", "range gs.AccountIdList", "if ok => return fmt.Errorf(\"duplicated index for accountId\")", "range gs.DidList", "if ok => return fmt.Errorf(\"duplicated index for did\")", "range gs.KidList", "if ok => return fmt.Errorf(\"duplicated index for kid\")", "range gs.DidBalancesList", "if ok => return fmt.Errorf(\"duplicated index for didBalances\")"])
]

def x_did_types_key_account_auth_go : List (String × List String) := [
  ("AccountAuthKey", [])
]

def x_did_types_key_account_id_go : List (String × List String) := [
  ("AccountIdKey", [])
]

def x_did_types_key_account_list_go : List (String × List String) := [
  ("AccountListKey", [])
]

def x_did_types_key_did_go : List (String × List String) := [
  ("DidKey", [])
]

def x_did_types_key_did_balances_go : List (String × List String) := [
  ("DidBalancesKey", [])
]

def x_did_types_key_kid_go : List (String × List String) := [
  ("KidKey", [])
]

def x_did_types_key_past_seeds_go : List (String × List String) := [
  ("PastSeedsKey", [])
]

def x_did_types_key_payment_address_go : List (String × List String) := [
  ("PaymentAddressKey", [])
]

def x_did_types_key_sid_document_go : List (String × List String) := [
  ("SidDocumentKey", [])
]

def x_did_types_key_sid_document_version_go : List (String × List String) := [
  ("SidDocumentVersionKey", [])
]

def x_did_types_keys_go : List (String × List String) := [
  ("KeyPrefix", [])
]

def x_did_types_message_binding_go : List (String × List String) := [
  ("*MsgBinding.GetSignBytes", []),
  ("*MsgBinding.GetSigners", ["if err != nil => panic"]),
  ("*MsgBinding.Route", []),
  ("*MsgBinding.Type", []),
  ("*MsgBinding.ValidateBasic", ["if err != nil => return sdkerrors.Wrapf(sdkerrors.ErrInvalidAddress, \"invalid creator address (%s)\", err)"]),
  ("NewMsgBinding", [])
]

def x_did_types_message_update_go : List (String × List String) := [
  ("*MsgUpdate.GetSignBytes", []),
  ("*MsgUpdate.GetSigners", ["if err != nil => panic"]),
  ("*MsgUpdate.Route", []),
  ("*MsgUpdate.Type", []),
  ("*MsgUpdate.ValidateBasic", ["if err != nil => return sdkerrors.Wrapf(sdkerrors.ErrInvalidAddress, \"invalid creator address (%s)\", err)"]),
  ("NewMsgUpdate", [])
]

def x_did_types_message_update_payment_address_go : List (String × List String) := [
  ("*MsgUpdatePaymentAddress.GetSignBytes", []),
  ("*MsgUpdatePaymentAddress.GetSigners", ["if err != nil => panic"]),
  ("*MsgUpdatePaymentAddress.Route", []),
  ("*MsgUpdatePaymentAddress.Type", []),
  ("*MsgUpdatePaymentAddress.ValidateBasic", ["if err != nil => return sdkerrors.Wrapf(sdkerrors.ErrInvalidAddress, \"invalid creator address (%s)\", err)"]),
  ("NewMsgUpdatePaymentAddress", [])
]

def x_did_types_params_go : List (String × List String) := [
  ("*Params.ParamSetPairs", []),
  ("DefaultParams", []),
  ("NewParams", []),
  ("ParamKeyTable", []),
  ("Params.String", []),
  ("Params.Validate", []),
  ("validateBuiltinDid", [])
]

def x_did_types_types_go : List (String × List String) := [
  ("Caip10AccountId.ToString", []),
  ("ParseToCaip10", [])
]

def x_market_genesis_go : List (String × List String) := [
  ("ExportGenesis", []),
  ("InitGenesis", ["range genState.WorkerList"])
]

def x_market_keeper_grpc_query_params_go : List (String × List String) := [
  ("Keeper.Params", ["if req == nil => return status.Error(codes.InvalidArgument, \"invalid request\")"])
]

def x_market_keeper_grpc_query_worker_go : List (String × List String) := [
  ("Keeper.Worker", ["if req == nil => return status.Error(codes.InvalidArgument, \"invalid request\")", "if !found => return status.Error(codes.NotFound, \"not found\")"]),
  ("Keeper.WorkerAll", ["if req == nil => return status.Error(codes.InvalidArgument, \"invalid request\")", "func literal", "if err != nil => return err", "if err != nil => return status.Error(codes.Internal, err.Error())"])
]

def x_market_keeper_keeper_go : List (String × List String) := [
  ("Keeper.Logger", []),
  ("NewKeeper", ["if !ps.HasKeyTable()"])
]

def x_market_keeper_migrations_go : List (String × List String) := [
  ("NewMigrator", [])
]

def x_market_keeper_msg_server_go : List (String × List String) := [
  ("NewMsgServerImpl", [])
]

def x_market_keeper_params_go : List (String × List String) := [
  ("Keeper.GetParams", []),
  ("Keeper.SetParams", [])
]

def x_market_keeper_pool_management_go : List (String × List String) := [
  ("Keeper.Claim", ["if !found => return", "if worker.Reward.Amount.TruncateInt().IsZero() => return"]),
  ("Keeper.Deposit", ["if amount.IsZero() => return sdkerrors.Wrap(types.ErrInvalidAmount, \"\")", "if err != nil => return err"]),
  ("Keeper.Migrate", ["if err != nil => return err", "if err != nil => return err"]),
  ("Keeper.Withdraw", ["if amount.IsZero() => return sdkerrors.Wrap(types.ErrInvalidAmount, \"\")", "range order.Shards", "if !found || shard.OrderId > order.Id => continue", "if shard.Status == ordertypes.ShardCompleted && shard.OrderId == order.Id", "if err != nil => return err", "if shard.Status == ordertypes.ShardCompleted && shard.OrderId < order.Id", "if shard.Status == ordertypes.ShardWaiting", "if !refundCoin.IsZero()", "if err != nil => return err"]),
  ("Keeper.WorkerAppend", ["if order == nil => return status.Errorf(codes.NotFound, \"WorkerRelease order not found\")", "if shard == nil => return status.Errorf(codes.NotFound, \"WorkerRelease shard not found\")", "if !found", "if worker.Storage > 0"]),
  ("Keeper.WorkerRelease", ["if order == nil => return status.Errorf(codes.NotFound, \"WorkerRelease order not found\")", "if shard == nil => return status.Errorf(codes.NotFound, \"WorkerRelease shard not found\")", "if !foundWorker => return status.Errorf(codes.NotFound, \"worker: %v not found\", workerName)"])
]

def x_market_keeper_worker_go : List (String × List String) := [
  ("Keeper.GetAllWorker", ["for iterator.Valid()"]),
  ("Keeper.GetWorker", ["if b == nil => return false"]),
  ("Keeper.RemoveWorker", []),
  ("Keeper.SetWorker", [])
]

def x_market_module_go : List (String × List String) := [
  ("AppModule.BeginBlock", []),
  ("AppModule.ConsensusVersion", []),
  ("AppModule.EndBlock", []),
  ("AppModule.ExportGenesis", []),
  ("AppModule.InitGenesis", []),
  ("AppModule.LegacyQuerierHandler", []),
  ("AppModule.QuerierRoute", []),
  ("AppModule.RegisterInvariants", []),
  ("AppModule.RegisterServices", []),
  ("AppModule.Route", []),
  ("AppModuleBasic.DefaultGenesis", []),
  ("AppModuleBasic.GetQueryCmd", []),
  ("AppModuleBasic.GetTxCmd", []),
  ("AppModuleBasic.Name", []),
  ("AppModuleBasic.RegisterGRPCGatewayRoutes", []),
  ("AppModuleBasic.RegisterInterfaces", []),
  ("AppModuleBasic.RegisterLegacyAminoCodec", []),
  ("AppModuleBasic.ValidateGenesis", ["if err != nil => return fmt.Errorf(\"failed to unmarshal %s genesis state: %w\", types.ModuleName, err)"]),
  ("NewAppModule", []),
  ("NewAppModuleBasic", [])
]

def x_market_module_simulation_go : List (String × List String) := [
  ("AppModule.GenerateGenesisState", ["range simState.Accounts"]),
  ("AppModule.ProposalContents", []),
  ("AppModule.RandomizedParams", []),
  ("AppModule.RegisterStoreDecoder", []),
  ("AppModule.WeightedOperations", [])
]

def x_market_types_codec_go : List (String × List String) := [
  ("RegisterCodec", []),
  ("RegisterInterfaces", [])
]

def x_market_types_genesis_go : List (String × List String) := [
  ("DefaultGenesis", []),
  ("GenesisState.Validate", ["range gs.WorkerList", "if ok => return fmt.Errorf(\"duplicated index for worker\")"])
]

def x_market_types_key_pool_go : List (String × List String) := [
  ("PoolKey", [])
]

def x_market_types_key_worker_go : List (String × List String) := [
  ("WorkerKey", [])
]

def x_market_types_keys_go : List (String × List String) := [
  ("KeyPrefix", [])
]

def x_market_types_params_go : List (String × List String) := [
  ("*Params.ParamSetPairs", []),
  ("DefaultParams", []),
  ("NewParams", []),
  ("ParamKeyTable", []),
  ("Params.String", []),
  ("Params.Validate", [])
]

def x_model_abic_go : List (String × List String) := [
  ("EndBlocker", ["if !foundExpired => return", "range expiredData.Data", "if found && meta.CreatedAt + meta.Duration > uint64(ctx.BlockHeight()) => continue"])
]

def x_model_genesis_go : List (String × List String) := [
  ("ExportGenesis", []),
  ("InitGenesis", ["range genState.MetadataList", "range genState.ModelList", "range genState.ExpiredDataList"])
]

def x_model_keeper_data_management_go : List (String × List String) := [
  ("CommitFromVersion", []),
  ("Keeper.CancelOrder", ["if k.order.RefundOrder(ctx, orderId) != nil => return sdkerrors.Wrapf(ordertypes.ErrorRefundOrder, \"refund order failed\")"]),
  ("Keeper.DeleteMeta", ["if !found => return status.Errorf(codes.NotFound, \"dataId %s not found\", dataId)"]),
  ("Keeper.ExtendMetaDuration", ["if meta.Duration < newDuration"]),
  ("Keeper.NewMeta", ["if len(metadata.DataId) != 36 => return sdkerrors.Wrapf(types.ErrInvalidDataId, \"dataid: %s\", metadata.DataId)", "if found_meta => return sdkerrors.Wrap(types.ErrDataIdExists, \"\")", "if found_model => return sdkerrors.Wrapf(types.ErrModelExists, \"model key: %s\", key)"]),
  ("Keeper.ResetMetaDuration", ["range orders", "if foundOrder", "range order.Shards", "if shardExpiredMap[shardId] == 0", "if foundShard && shard.Status == ordertypes.ShardCompleted", "range shard.RenewInfos", "if shardExpiredMap[shardId] > expiredHeight", "if expiredHeight < meta.CreatedAt => return", "if meta.Duration != newDuration"]),
  ("Keeper.RollbackMeta", ["if !found => return", "if len(metadata.Commits) == 0 => return"]),
  ("Keeper.TerminateOrder", ["if err != nil => return err", "range order.Shards", "if !found => continue", "if shard.Status == ordertypes.ShardCompleted && shard.OrderId == order.Id", "if err != nil => return err", "if err != nil => return err"]),
  ("Keeper.UpdateMeta", ["if len(order.DataId) != 36 => return sdkerrors.Wrapf(types.ErrInvalidDataId, \"dataid: %s\", order.DataId)", "if !foundMeta => return status.Error(codes.NotFound, \"not found\")", "if !isValid", "range metadata.ReadwriteDids", "if readwriteDid == order.Owner => break", "if !isValid => return sdkerrors.Wrap(types.ErrorNoPermission, \"No permission to update the model\")", "switch order.Operation", "case 1", "case 2", "for ", "if len(metadata.Orders) == 0 => break", "if !foundLastOrder => return status.Error(codes.NotFound, \"last order not found\")", "if lastOrder.Commit != lastCommit => break", "range lastOrder.Shards", "if err != nil => return err", "range shardSet", "if len(metadata.Commits) > 0", "case 3", "default"]),
  ("Keeper.UpdateMetaStatusAndCommit", ["if !found => return status.Errorf(codes.NotFound, \"dataId %s not found\", order.DataId)", "if metadata.Status != types.MetaComplete => return sdkerrors.Wrapf(types.ErrInvalidStatus, \"unexpected meta: %s, status: %d\", metadata.DataId, metadata.Status)", "if oldExpired < uint64(ctx.BlockHeight()) => return status.Error(codes.Aborted, \"metadata should have expired\")", "if oldExpired < newExpired"]),
  ("Keeper.UpdatePermission", ["if !found => return status.Errorf(codes.NotFound, \"dataId %s not found\", dataId)", "if owner != metadata.Owner => return sdkerrors.Wrap(types.ErrorNoPermission, \"No permission to update the model\")"]),
  ("Keeper.removeDataExpireBlock", ["if !foundExpiredData => return", "range expiredData.Data", "if id == dataId", "if len(expiredData.Data) == 0"]),
  ("Keeper.setDataExpireBlock", ["if !foundExpiredData"]),
  ("Version", [])
]

def x_model_keeper_expired_data_go : List (String × List String) := [
  ("Keeper.GetAllExpiredData", ["for iterator.Valid()"]),
  ("Keeper.GetExpiredData", ["if b == nil => return false"]),
  ("Keeper.RemoveExpiredData", []),
  ("Keeper.SetExpiredData", [])
]

def x_model_keeper_grpc_query_expired_data_go : List (String × List String) := [
  ("Keeper.ExpiredData", ["if req == nil => return status.Error(codes.InvalidArgument, \"invalid request\")", "if !found => return status.Error(codes.NotFound, \"not found\")"]),
  ("Keeper.ExpiredDataAll", ["if req == nil => return status.Error(codes.InvalidArgument, \"invalid request\")", "func literal", "if err != nil => return err", "if err != nil => return status.Error(codes.Internal, err.Error())"])
]

def x_model_keeper_grpc_query_meta_status_go : List (String × List String) := [
  ("Keeper.MetaStatus", ["if req == nil => return status.Error(codes.InvalidArgument, \"invalid request\")", "range req.DataIds", "if !found"])
]

def x_model_keeper_grpc_query_metadata_go : List (String × List String) := [
  ("Keeper.Metadata", ["if req == nil => return status.Error(codes.InvalidArgument, \"invalid request\")", "if !found => return status.Error(codes.NotFound, \"not found\")", "if orderId < 0 => return status.Error(codes.InvalidArgument, \"invalid orderId\")", "if !found => return status.Error(codes.NotFound, \"order not found\")", "range order.Shards", "if !found => return status.Errorf(codes.NotFound, \"shard %d not found\", id)", "if shard.Status != ordertypes.ShardCompleted => continue", "if !node_found => continue"]),
  ("Keeper.MetadataAll", ["if req == nil => return status.Error(codes.InvalidArgument, \"invalid request\")", "func literal", "if err != nil => return err", "if err != nil => return status.Error(codes.Internal, err.Error())"])
]

def x_model_keeper_grpc_query_model_go : List (String × List String) := [
  ("Keeper.Model", ["if req == nil => return status.Error(codes.InvalidArgument, \"invalid request\")", "if !found => return status.Error(codes.NotFound, \"not found\")"]),
  ("Keeper.ModelAll", ["if req == nil => return status.Error(codes.InvalidArgument, \"invalid request\")", "func literal", "if err != nil => return err", "if err != nil => return status.Error(codes.Internal, err.Error())"])
]

def x_model_keeper_grpc_query_params_go : List (String × List String) := [
  ("Keeper.Params", ["if req == nil => return status.Error(codes.InvalidArgument, \"invalid request\")"])
]

def x_model_keeper_keeper_go : List (String × List String) := [
  ("Keeper.Logger", []),
  ("NewKeeper", ["if !ps.HasKeyTable()"])
]

def x_model_keeper_metadata_go : List (String × List String) := [
  ("Keeper.GetAllMetadata", ["for iterator.Valid()"]),
  ("Keeper.GetMetadata", ["if b == nil => return false"]),
  ("Keeper.RemoveMetadata", []),
  ("Keeper.SetMetadata", [])
]

def x_model_keeper_migrations_go : List (String × List String) := [
  ("NewMigrator", [])
]

def x_model_keeper_model_go : List (String × List String) := [
  ("Keeper.GetAllModel", ["for iterator.Valid()"]),
  ("Keeper.GetModel", ["if b == nil => return false"]),
  ("Keeper.RemoveModel", []),
  ("Keeper.SetModel", [])
]

def x_model_keeper_msg_server_go : List (String × List String) := [
  ("NewMsgServerImpl", [])
]

def x_model_keeper_params_go : List (String × List String) := [
  ("Keeper.GetParams", []),
  ("Keeper.SetParams", [])
]

def x_model_module_go : List (String × List String) := [
  ("AppModule.BeginBlock", []),
  ("AppModule.ConsensusVersion", []),
  ("AppModule.EndBlock", []),
  ("AppModule.ExportGenesis", []),
  ("AppModule.InitGenesis", []),
  ("AppModule.LegacyQuerierHandler", []),
  ("AppModule.QuerierRoute", []),
  ("AppModule.RegisterInvariants", []),
  ("AppModule.RegisterServices", []),
  ("AppModule.Route", []),
  ("AppModuleBasic.DefaultGenesis", []),
  ("AppModuleBasic.GetQueryCmd", []),
  ("AppModuleBasic.GetTxCmd", []),
  ("AppModuleBasic.Name", []),
  ("AppModuleBasic.RegisterGRPCGatewayRoutes", []),
  ("AppModuleBasic.RegisterInterfaces", []),
  ("AppModuleBasic.RegisterLegacyAminoCodec", []),
  ("AppModuleBasic.ValidateGenesis", ["if err != nil => return fmt.Errorf(\"failed to unmarshal %s genesis state: %w\", types.ModuleName, err)"]),
  ("NewAppModule", []),
  ("NewAppModuleBasic", [])
]

def x_model_module_simulation_go : List (String × List String) := [
  ("AppModule.GenerateGenesisState", ["range simState.Accounts"]),
  ("AppModule.ProposalContents", []),
  ("AppModule.RandomizedParams", []),
  ("AppModule.RegisterStoreDecoder", []),
  ("AppModule.WeightedOperations", [])
]

def x_model_types_codec_go : List (String × List String) := [
  ("RegisterCodec", []),
  ("RegisterInterfaces", [])
]

def x_model_types_genesis_go : List (String × List String) := [
  ("DefaultGenesis", []),
  ("GenesisState.Validate", ["range gs.MetadataList", "if ok => return fmt.Errorf(\"duplicated index for metadata\")", "range gs.ModelList", "if ok => return fmt.Errorf(\"duplicated index for model\")", "range gs.ExpiredDataList", "if ok => return fmt.Errorf(\"duplicated index for expiredData\")"])
]

def x_model_types_key_expired_data_go : List (String × List String) := [
  ("ExpiredDataKey", [])
]

def x_model_types_key_metadata_go : List (String × List String) := [
  ("MetadataKey", [])
]

def x_model_types_key_model_go : List (String × List String) := [
  ("ModelKey", [])
]

def x_model_types_keys_go : List (String × List String) := [
  ("KeyPrefix", [])
]

def x_model_types_params_go : List (String × List String) := [
  ("*Params.ParamSetPairs", []),
  ("DefaultParams", []),
  ("NewParams", []),
  ("ParamKeyTable", []),
  ("Params.String", []),
  ("Params.Validate", [])
]

def x_node_abci_go : List (String × List String) := [
  ("BeginBlocker", ["if !found => return", "if pool.TotalPledged.IsZero() => return", "if params.BlockReward.IsZero() => return", "if pool.TotalPledged.IsLT(params.Baseline)", "if err != nil => return", "if reward.LT(rewardCoin.Amount)", "if rewardCoin.IsZero() => return", "if pool.NextRewardPerBlock.IsZero()", "if ctx.BlockHeight() % params.AdjustmentPeriod == 0", "if err == nil"]),
  ("EndBlock", ["if height % 600 == 0", "range nodes", "if node.LastAliveHeight + k.OfflineTriggerHeight(ctx) < height", "if node.Status & types.NODE_STATUS_ONLINE == types.NODE_STATUS_ONLINE"]),
  ("GetRewardAge", ["if !pool.TotalReward.IsLT(totalReward) => return 256"])
]

def x_node_genesis_go : List (String × List String) := [
  ("ExportGenesis", ["if foundPool"]),
  ("InitGenesis", ["range genState.NodeList", "range genState.PledgeDebtList", "range genState.PledgeList"])
]

def x_node_keeper_fault_go : List (String × List String) := [
  ("Keeper.GetFault", ["if faultBytes == nil => return false", "if err != nil => return false"]),
  ("Keeper.GetFaultBySpAndShardId", ["if faultIdBytes == nil => return false", "if faultBytes == nil => return false", "if err != nil => return false"]),
  ("Keeper.GetFaultsByStatus", ["for iterator.Valid()", "if status & n.Status == status"]),
  ("Keeper.RemoveFault", []),
  ("Keeper.SetFault", ["if fault.Status == types.FaultStatusConfirming && fault.FaultId == \"\""]),
  ("generateFaultId", [])
]

def x_node_keeper_fishing_reward_go : List (String × List String) := [
  ("Keeper.GetFishingReward", ["if rewardBytes == nil => return false", "if err != nil => return false"]),
  ("Keeper.SetFishingReward", [])
]

def x_node_keeper_grpc_query_all_faults_go : List (String × List String) := [
  ("Keeper.AllFaults", ["if req == nil => return status.Error(codes.InvalidArgument, \"invalid request\")", "func literal", "if err != nil => return status.Error(codes.Internal, err.Error())"])
]

def x_node_keeper_grpc_query_fault_go : List (String × List String) := [
  ("Keeper.Fault", ["if req == nil => return status.Error(codes.InvalidArgument, \"invalid request\")", "if !found => return status.Error(codes.NotFound, \"fault not found\")"])
]

def x_node_keeper_grpc_query_fishmen_go : List (String × List String) := [
  ("Keeper.Fishmen", ["if req == nil => return status.Error(codes.InvalidArgument, \"invalid request\")"])
]

def x_node_keeper_grpc_query_node_go : List (String × List String) := [
  ("Keeper.Node", ["if req == nil => return status.Error(codes.InvalidArgument, \"invalid request\")", "if !found => return status.Error(codes.NotFound, \"not found\")"]),
  ("Keeper.NodeAll", ["if req == nil => return status.Error(codes.InvalidArgument, \"invalid request\")", "func literal", "if err != nil => return err", "if req.Status == types.NODE_STATUS_NA || req.Status & node.Status > 0", "if err != nil => return status.Error(codes.Internal, err.Error())"])
]

def x_node_keeper_grpc_query_params_go : List (String × List String) := [
  ("Keeper.Params", ["if req == nil => return status.Error(codes.InvalidArgument, \"invalid request\")"])
]

def x_node_keeper_grpc_query_pledge_go : List (String × List String) := [
  ("Keeper.Pledge", ["if req == nil => return status.Error(codes.InvalidArgument, \"invalid request\")", "if !found => return status.Error(codes.NotFound, \"not found\")", "if !found_pool => return sdkerrors.Wrap(types.ErrPoolNotFound, \"\")"]),
  ("Keeper.PledgeAll", ["if req == nil => return status.Error(codes.InvalidArgument, \"invalid request\")", "func literal", "if err != nil => return err", "if err != nil => return status.Error(codes.Internal, err.Error())"])
]

def x_node_keeper_grpc_query_pledge_debt_go : List (String × List String) := [
  ("Keeper.PledgeDebt", ["if req == nil => return status.Error(codes.InvalidArgument, \"invalid request\")", "if !found => return status.Error(codes.NotFound, \"not found\")"]),
  ("Keeper.PledgeDebtAll", ["if req == nil => return status.Error(codes.InvalidArgument, \"invalid request\")", "func literal", "if err != nil => return err", "if err != nil => return status.Error(codes.Internal, err.Error())"])
]

def x_node_keeper_grpc_query_pool_go : List (String × List String) := [
  ("Keeper.Pool", ["if req == nil => return status.Error(codes.InvalidArgument, \"invalid request\")", "if !found => return status.Error(codes.NotFound, \"not found\")"])
]

def x_node_keeper_hooks_go : List (String × List String) := [
  ("Hooks.AfterDelegationModified", []),
  ("Hooks.AfterValidatorBeginUnbonding", []),
  ("Hooks.AfterValidatorBonded", []),
  ("Hooks.AfterValidatorCreated", []),
  ("Hooks.AfterValidatorRemoved", []),
  ("Hooks.BeforeDelegationCreated", []),
  ("Hooks.BeforeDelegationRemoved", []),
  ("Hooks.BeforeDelegationSharesModified", []),
  ("Hooks.BeforeValidatorModified", []),
  ("Hooks.BeforeValidatorSlashed", []),
  ("Hooks.verifySuperStorageNodes", ["if accAddr != nil && !sharesBeforeModified.IsZero()", "if sharesBeforeModified.GT(del.GetShares())", "if beforeDeletationRemoved", "range delegations", "if found && (node.Validator == \"\" || node.Validator == valAddr.String())", "if beforeDeletationRemoved && delegation.DelegatorAddress == accAddr.String() => continue", "if node.Role == types.NODE_SUPER", "if ok => continue", "if node.Status & types.NODE_STATUS_SUPER_REQUIREMENT != types.NODE_STATUS_SUPER_REQUIREMENT => continue", "if node.Role == types.NODE_SUPER", "if !found || pledge.TotalStorage < hook.k.VstorageThreshold(ctx) => continue", "if node.Role == types.NODE_SUPER", "if err == nil", "if node.Role == types.NODE_NORMAL", "if node.Role == types.NODE_SUPER", "if !sharesBeforeModified.IsZero()"]),
  ("Keeper.Hooks", [])
]

def x_node_keeper_keeper_go : List (String × List String) := [
  ("Keeper.Logger", []),
  ("Keeper.MintCoins", ["if newCoins.Empty() => return"]),
  ("Keeper.Stats", []),
  ("NewKeeper", ["if !ps.HasKeyTable()"])
]

def x_node_keeper_migrations_go : List (String × List String) := [
  ("NewMigrator", [])
]

def x_node_keeper_msg_server_go : List (String × List String) := [
  ("NewMsgServerImpl", [])
]

def x_node_keeper_msg_server_add_vstorage_go : List (String × List String) := [
  ("msgServer.AddVstorage", ["if !found => return status.Errorf(codes.NotFound, \"node %d not found\", msg.Creator)", "if !found => return status.Errorf(codes.NotFound, \"pool not found\")", "if err != nil => return err", "if !found", "if pledge.TotalStorage > 0", "if pledge.TotalStorage >= k.VstorageThreshold(ctx)", "if !found => return types.ErrNodeNotFound", "if node.Role == types.NODE_NORMAL && node.Status & types.NODE_STATUS_SUPER_REQUIREMENT == types.NODE_STATUS_SUPER_REQUIREMENT", "if k.CheckNodeShare(ctx, &node, msg.Creator)"])
]

def x_node_keeper_msg_server_claim_reward_go : List (String × List String) := [
  ("msgServer.ClaimReward", ["if !found => return sdkerrors.Wrap(types.ErrPledgeNotFound, \"pledge not found\")", "if err != nil => return err", "if !repaid.IsZero()", "if err != nil => return err", "if !claimReward.IsZero()", "if err != nil => return err", "if !workerReward.IsZero()", "if err != nil => return err"])
]

def x_node_keeper_msg_server_create_go : List (String × List String) := [
  ("msgServer.Create", ["if found => return sdkerrors.Wrapf(types.ErrAlreadyRegistered, \"%s\", msg.Creator)"])
]

def x_node_keeper_msg_server_remove_vstorage_go : List (String × List String) := [
  ("msgServer.RemoveVstorage", ["if !found => return status.Errorf(codes.NotFound, \"node %d not found\", msg.Creator)", "if !found => return status.Errorf(codes.NotFound, \"pool not found\")", "if !found => return status.Errorf(codes.NotFound, \"node %d not pledged yet\", msg.Creator)", "if amount.IsZero() => return status.Errorf(codes.InvalidArgument, \"Removing %d bytes of storage does not release even 1 sao pledge, try increasing the remove size\", msg.Size_)", "if size.Int64() > pledge.TotalStorage - pledge.UsedStorage => return sdkerrors.Wrap(types.ErrAvailableVstorage, \"no enough available vstorage\")", "if err != nil => return err", "if pledge.TotalStorage > 0", "if pledge.TotalStorage < k.VstorageThreshold(ctx)", "if !found => return types.ErrNodeNotFound", "if node.Role == types.NODE_SUPER"])
]

def x_node_keeper_msg_server_reset_go : List (String × List String) := [
  ("msgServer.Reset", ["if !found => return sdkerrors.Wrapf(types.ErrNodeNotFound, \"%s\", msg.Creator)", "if node.Creator != msg.Creator => return sdkerrors.Wrapf(types.ErrOnlyOwner, \"only node owner can execute this action\")", "if msg.Status != types.NODE_STATUS_NA && node.Status != msg.Status", "if msg.Peer != \"\" && node.Peer != msg.Peer", "range strings.Split(msg.Peer, \",\")", "if err != nil => return sdkerrors.Wrapf(types.ErrInvalidPeer, \"%s\", peerInfo)", "if msg.Validator != \"\" && node.Validator != msg.Validator", "if err != nil => return sdkerrors.Wrapf(types.ErrInvalidValidator, \"%s\", msg.Validator)", "if !found => return sdkerrors.Wrapf(types.ErrValidatorNotFound, \"%s\", msg.Validator)", "if msg.Description != nil && node.Description != msg.Description", "if len(msg.TxAddresses) != 0", "if msg.Status & types.NODE_STATUS_SUPER_REQUIREMENT == types.NODE_STATUS_SUPER_REQUIREMENT", "if found && pledge.TotalStorage >= k.VstorageThreshold(ctx)"])
]

def x_node_keeper_node_go : List (String × List String) := [
  ("Keeper.DoPenalty", ["for iterator.Valid()", "if err != nil => continue", "if f.Status == types.FaultStatusConfirmed", "range totalPenaltyMap", "if totalPenalty > maxPenalty", "if found"]),
  ("Keeper.GetAllNode", ["for iterator.Valid()"]),
  ("Keeper.GetAllNodesByStatus", ["for iterator.Valid()", "if status & n.Status == status"]),
  ("Keeper.GetAllNodesByStatusAndReputationAndRole", ["for iterator.Valid()", "if !found || pledge.TotalStorage - pledge.UsedStorage < size => continue", "if status & n.Status == status && n.Reputation >= reputation && n.Role == role"]),
  ("Keeper.GetAllSuperNodes", ["for iterator.Valid()", "if n.Role == types.NODE_SUPER"]),
  ("Keeper.GetNextSuperNodes", ["if len(round) == 0", "if len(snodes) > 0", "for tries < len(snodes)", "if i >= uint8(len(snodes))", "range ignore", "if ig == snodes[i].Creator => break", "if !found || pledge.TotalStorage - pledge.UsedStorage < size", "if !toIgnore", "if status & snodes[i].Status == status && snodes[i].Reputation >= reputation => return snodes[i]", "if int(i + 1) >= len(snodes)", "if round[0] == 0", "if i == uint8(len(snodes) - 1) => break", "if i == uint8(round[0] - 1) => break"]),
  ("Keeper.GetNode", ["if b == nil => return false"]),
  ("Keeper.GetNodeRound", ["if b == nil => return false"]),
  ("Keeper.RemoveNode", []),
  ("Keeper.SetNode", []),
  ("Keeper.SetNodeRound", [])
]

def x_node_keeper_params_go : List (String × List String) := [
  ("Keeper.AdjustmentPeriod", []),
  ("Keeper.AnnualPercentageYield", []),
  ("Keeper.Baseline", []),
  ("Keeper.BlockReward", []),
  ("Keeper.FishmenInfo", []),
  ("Keeper.GetParams", []),
  ("Keeper.HalvingPeriod", []),
  ("Keeper.MaxPenalty", []),
  ("Keeper.OfflineTriggerHeight", []),
  ("Keeper.PenaltyBase", []),
  ("Keeper.SetAdjustmentPeriod", []),
  ("Keeper.SetAnnualPercentageYield", []),
  ("Keeper.SetBaseline", []),
  ("Keeper.SetFishmenInfo", []),
  ("Keeper.SetHalvingPeriod", []),
  ("Keeper.SetOfflineTriggerHeight", []),
  ("Keeper.SetParams", []),
  ("Keeper.SetShareThreshold", []),
  ("Keeper.SetVstorageThreshold", []),
  ("Keeper.ShareThreshold", []),
  ("Keeper.VstorageThreshold", [])
]

def x_node_keeper_pledge_go : List (String × List String) := [
  ("Keeper.GetAllPledge", ["for iterator.Valid()"]),
  ("Keeper.GetPledge", ["if b == nil => return false"]),
  ("Keeper.RemovePledge", []),
  ("Keeper.SetPledge", [])
]

def x_node_keeper_pledge_debt_go : List (String × List String) := [
  ("Keeper.GetAllPledgeDebt", ["for iterator.Valid()"]),
  ("Keeper.GetPledgeDebt", ["if b == nil => return false"]),
  ("Keeper.RemovePledgeDebt", []),
  ("Keeper.SetPledgeDebt", [])
]

def x_node_keeper_pool_go : List (String × List String) := [
  ("Keeper.GetPool", ["if b == nil => return false"]),
  ("Keeper.RemovePool", []),
  ("Keeper.SetPool", [])
]

def x_node_keeper_reputation_go : List (String × List String) := [
  ("Keeper.DecreaseReputation", ["if !found => return types.ErrNodeNotFound"]),
  ("Keeper.IncreaseReputation", ["if !found => return types.ErrNodeNotFound"]),
  ("Keeper.RandomIndex", ["if total <= count => return idx", "for count > 0", "if seed.Sign() == 0 => break", "for i < total && count > 0", "range idx", "if i == v", "if !duplicate", "range idx", "if rs == v", "if duplicate => continue"]),
  ("Keeper.RandomSP", ["if superNode.Creator != \"\"", "if superNodeCount == 1 && count == 1 => return []types.Node{…}", "range ignore", "range nodes", "if s == node.Creator => break", "if superNodeCount + len(nodes) <= count => return nodes", "if superNodeCount > 0", "if superNodeCount > 0", "if maxCandidates > count * 2", "range k.RandomIndex(header, maxCandidates, count)", "if superNodeCount > 0"]),
  ("SelectNodes", ["if length <= size", "for i <= size"]),
  ("buildHeap", ["for position >= 0"]),
  ("heapify", ["if position >= size => return", "if cl < size && nodes[cl].LastAliveHeight >= nodes[index].LastAliveHeight", "if nodes[cl].LastAliveHeight == nodes[index].LastAliveHeight", "if nodes[cl].Reputation > nodes[index].Reputation", "if cr < size && nodes[cr].LastAliveHeight >= nodes[index].LastAliveHeight", "if nodes[cr].LastAliveHeight == nodes[index].LastAliveHeight", "if nodes[cr].Reputation > nodes[index].Reputation"])
]

def x_node_keeper_shard_pledge_management_go : List (String × List String) := [
  ("Keeper.BlockRewardPledge", []),
  ("Keeper.RepayPledgeDebt", ["if found", "range rewards", "if reward.IsGTE(pledgeDebt.Debt) => return"]),
  ("Keeper.ShardPledge", ["if !foundPledge => return status.Error(codes.NotFound, \"not plegded yet\")", "if !foundPool => return sdkerrors.Wrap(types.ErrPoolNotFound, \"\")", "if pledge.TotalStorage > 0", "if uint64(pledge.TotalStorage - pledge.UsedStorage) < shard.Size_ => return sdkerrors.Wrap(types.ErrAvailableVstorage, \"no enough available vstorage\")", "if !dec.IsZero()", "range shard.RenewInfos", "if shardPledge.IsLT(renewInfo.Pledge)", "if len(shard.RenewInfos) != 0", "if balance.IsGTE(shardPledge)", "if found", "if err != nil => return err"]),
  ("Keeper.ShardRelease", ["if !foundPledge => return sdkerrors.Wrap(types.ErrPledgeNotFound, \"\")", "if !foundPool => return sdkerrors.Wrap(types.ErrPoolNotFound, \"\")", "if pledge.TotalStorage > 0", "if shard != nil", "if !shardPledge.IsZero()", "if err != nil => return err"]),
  ("Keeper.StoreRewardPledge", [])
]

def x_node_keeper_super_go : List (String × List String) := [
  ("Keeper.CheckDelegationShare", ["if err != nil => return sdkerrors.Wrapf(types.ErrInvalidDelegate, \"%v\", err)", "if err != nil => return sdkerrors.Wrapf(types.ErrInvalidDelegate, \"%v\", err)", "if !found => return sdkerrors.Wrapf(types.ErrInvalidDelegate, \"delegator %v delegate to validator %v not found\", delAddr, valAddr)", "if !found => return sdkerrors.Wrapf(types.ErrInvalidDelegate, \"query validator error %v\", found)", "if validator.DelegatorShares.Equal(sharesToSub) => return sdkerrors.Wrapf(types.ErrInvalidDelegate, \"validator will be removed\")", "if ratio.LT(k.ShareThreshold(ctx)) => return sdkerrors.Wrapf(types.ErrInvalidDelegate, \"insufficient shares in this validator need %.2f but %.2f\", k.ShareThreshold(ctx).MustFloat64(), ratio.MustFloat64())"]),
  ("Keeper.CheckNodeShare", ["if node.Validator != \"\"", "if err == nil => return true", "range dels", "if err == nil => return true"]),
  ("Keeper.SetNormalNode", []),
  ("Keeper.SetSuperNode", [])
]

def x_node_module_go : List (String × List String) := [
  ("AppModule.BeginBlock", []),
  ("AppModule.ConsensusVersion", []),
  ("AppModule.EndBlock", []),
  ("AppModule.ExportGenesis", []),
  ("AppModule.InitGenesis", []),
  ("AppModule.LegacyQuerierHandler", []),
  ("AppModule.QuerierRoute", []),
  ("AppModule.RegisterInvariants", []),
  ("AppModule.RegisterServices", []),
  ("AppModule.Route", []),
  ("AppModuleBasic.DefaultGenesis", []),
  ("AppModuleBasic.GetQueryCmd", []),
  ("AppModuleBasic.GetTxCmd", []),
  ("AppModuleBasic.Name", []),
  ("AppModuleBasic.RegisterGRPCGatewayRoutes", []),
  ("AppModuleBasic.RegisterInterfaces", []),
  ("AppModuleBasic.RegisterLegacyAminoCodec", []),
  ("AppModuleBasic.ValidateGenesis", ["if err != nil => return fmt.Errorf(\"failed to unmarshal %s genesis state: %w\", types.ModuleName, err)"]),
  ("NewAppModule", []),
  ("NewAppModuleBasic", [])
]

def x_node_module_simulation_go : List (String × List String) := [
  ("AppModule.GenerateGenesisState", ["range simState.Accounts"]),
  ("AppModule.ProposalContents", []),
  ("AppModule.RandomizedParams", []),
  ("AppModule.RegisterStoreDecoder", []),
  ("AppModule.WeightedOperations", ["func literal", "func literal", "func literal", "func literal", "func literal"])
]

def x_node_types_codec_go : List (String × List String) := [
  ("RegisterCodec", []),
  ("RegisterInterfaces", [])
]

def x_node_types_fault_go : List (String × List String) := [
  ("FaultKey", [])
]

def x_node_types_genesis_go : List (String × List String) := [
  ("DefaultGenesis", []),
  ("GenesisState.Validate", ["range gs.NodeList", "if ok => return fmt.Errorf(\"duplicated index for node\")", "range gs.PledgeDebtList", "if ok => return fmt.Errorf(\"duplicated index for pledgeDebt\")"])
]

def x_node_types_key_node_go : List (String × List String) := [
  ("NodeKey", [])
]

def x_node_types_key_node_round_go : List (String × List String) := [
  ("NodeRoundKey", [])
]

def x_node_types_key_pledge_go : List (String × List String) := [
  ("PledgeKey", [])
]

def x_node_types_key_pledge_debt_go : List (String × List String) := [
  ("PledgeDebtKey", [])
]

def x_node_types_keys_go : List (String × List String) := [
  ("KeyPrefix", [])
]

def x_node_types_message_add_vstorage_go : List (String × List String) := [
  ("*MsgAddVstorage.GetSignBytes", []),
  ("*MsgAddVstorage.GetSigners", ["if err != nil => panic"]),
  ("*MsgAddVstorage.Route", []),
  ("*MsgAddVstorage.Type", []),
  ("*MsgAddVstorage.ValidateBasic", ["if err != nil => return sdkerrors.Wrapf(sdkerrors.ErrInvalidAddress, \"invalid creator address (%s)\", err)"]),
  ("NewMsgAddVstorage", [])
]

def x_node_types_message_claim_reward_go : List (String × List String) := [
  ("*MsgClaimReward.GetSignBytes", []),
  ("*MsgClaimReward.GetSigners", ["if err != nil => panic"]),
  ("*MsgClaimReward.Route", []),
  ("*MsgClaimReward.Type", []),
  ("*MsgClaimReward.ValidateBasic", ["if err != nil => return sdkerrors.Wrapf(sdkerrors.ErrInvalidAddress, \"invalid creator address (%s)\", err)"]),
  ("NewMsgClaimReward", [])
]

def x_node_types_message_create_go : List (String × List String) := [
  ("*MsgCreate.GetSignBytes", []),
  ("*MsgCreate.GetSigners", ["if err != nil => panic"]),
  ("*MsgCreate.Route", []),
  ("*MsgCreate.Type", []),
  ("*MsgCreate.ValidateBasic", ["if err != nil => return sdkerrors.Wrapf(sdkerrors.ErrInvalidAddress, \"invalid creator address (%s)\", err)"]),
  ("NewMsgCreate", [])
]

def x_node_types_message_remove_vstorage_go : List (String × List String) := [
  ("*MsgRemoveVstorage.GetSignBytes", []),
  ("*MsgRemoveVstorage.GetSigners", ["if err != nil => panic"]),
  ("*MsgRemoveVstorage.Route", []),
  ("*MsgRemoveVstorage.Type", []),
  ("*MsgRemoveVstorage.ValidateBasic", ["if err != nil => return sdkerrors.Wrapf(sdkerrors.ErrInvalidAddress, \"invalid creator address (%s)\", err)"]),
  ("NewMsgRemoveVstorage", [])
]

def x_node_types_message_reset_go : List (String × List String) := [
  ("*MsgReset.GetSignBytes", []),
  ("*MsgReset.GetSigners", ["if err != nil => panic"]),
  ("*MsgReset.Route", []),
  ("*MsgReset.Type", []),
  ("*MsgReset.ValidateBasic", ["if err != nil => return sdkerrors.Wrapf(sdkerrors.ErrInvalidAddress, \"invalid creator address (%s)\", err)"]),
  ("NewMsgReset", [])
]

def x_node_types_params_go : List (String × List String) := [
  ("*Params.ParamSetPairs", []),
  ("DefaultParams", []),
  ("NewParams", []),
  ("ParamKeyTable", []),
  ("Params.String", []),
  ("Params.Validate", ["if err != nil => return err", "if err != nil => return err", "if err != nil => return err", "if err != nil => return err", "if err != nil => return err", "if err != nil => return err", "if err != nil => return err", "if err != nil => return err", "if err != nil => return err", "if err != nil => return err", "if err != nil => return err"]),
  ("validateAPY", ["if err != nil => return err", "if apy.IsNegative() => return errors.New(\"invalid annual percentage yield\")"]),
  ("validateBaseline", []),
  ("validateBlockReward", ["if reward.Amount.IsNil() || reward.Amount.IsNegative() => return errors.New(\"invalid block reward\")"]),
  ("validateFishmenInfo", []),
  ("validateMaxPenalty", ["if p > 10 => return"]),
  ("validateOfflineTriggerHeight", ["if p > 0 => return"]),
  ("validatePenaltyBase", ["if p > 0 => return"]),
  ("validatePeriod", ["if p > 10 => return"]),
  ("validateShareThreshold", ["if t.MustFloat64() < 0.01 => return errors.New(\"invalid share threshold\")"]),
  ("validateVstorageThreshold", ["if p > 0 => return"])
]

def x_order_abic_go : List (String × List String) := [
  ("EndBlocker", [])
]

def x_order_genesis_go : List (String × List String) := [
  ("ExportGenesis", []),
  ("InitGenesis", ["range genState.OrderList", "range genState.ShardList"])
]

def x_order_keeper_grpc_query_order_go : List (String × List String) := [
  ("Keeper.Order", ["if req == nil => return status.Error(codes.InvalidArgument, \"invalid request\")", "if !found => return sdkerrors.ErrKeyNotFound", "range order.Shards", "if found"]),
  ("Keeper.OrderAll", ["if req == nil => return status.Error(codes.InvalidArgument, \"invalid request\")", "if req.Did != \"\"", "if pageRequest == nil", "if offset > 0 && key != nil => return fmt.Errorf(\"invalid request, either offset or key is expected, got both\")", "if limit == 0", "for iterator.Valid()", "if err != nil => return err", "if order.Owner == req.Did", "range req.States", "if i == order.Status", "if !contains => continue", "if count <= offset => continue", "if count <= end", "if count == end + 1", "if !countTotal => break", "if iterator.Error() != nil => return iterator.Error()", "if countTotal", "func literal", "if err != nil => return err", "if err != nil => return status.Error(codes.Internal, err.Error())"]),
  ("getIterator", ["if reverse => return prefixStore.ReverseIterator(nil, end)", "if start != nil", "if itr.Valid()"])
]

def x_order_keeper_grpc_query_params_go : List (String × List String) := [
  ("Keeper.Params", ["if req == nil => return status.Error(codes.InvalidArgument, \"invalid request\")"])
]

def x_order_keeper_grpc_query_shard_go : List (String × List String) := [
  ("Keeper.Shard", ["if req == nil => return status.Error(codes.InvalidArgument, \"invalid request\")", "if !found => return sdkerrors.ErrKeyNotFound"]),
  ("Keeper.ShardAll", ["if req == nil => return status.Error(codes.InvalidArgument, \"invalid request\")", "func literal", "if err != nil => return err", "if err != nil => return status.Error(codes.Internal, err.Error())"])
]

def x_order_keeper_grpc_query_shard_list_by_sp_go : List (String × List String) := [
  ("Keeper.ShardListBySp", ["if req == nil => return status.Error(codes.InvalidArgument, \"invalid request\")", "if nextShardId == req.ShardId => return"])
]

def x_order_keeper_keeper_go : List (String × List String) := [
  ("Keeper.Logger", []),
  ("NewKeeper", ["if !ps.HasKeyTable()"])
]

def x_order_keeper_migrations_go : List (String × List String) := [
  ("Migrator.Migrate1to2", []),
  ("NewMigrator", [])
]

def x_order_keeper_msg_server_go : List (String × List String) := [
  ("NewMsgServerImpl", [])
]

def x_order_keeper_order_go : List (String × List String) := [
  ("GetOrderIDBytes", []),
  ("GetOrderIDFromBytes", []),
  ("Keeper.AppendOrder", []),
  ("Keeper.GetAllOrder", ["for iterator.Valid()"]),
  ("Keeper.GetOrder", ["if b == nil => return false"]),
  ("Keeper.GetOrderCount", ["if bz == nil => return 1", "if count == 0"]),
  ("Keeper.RemoveOrder", []),
  ("Keeper.SetOrder", []),
  ("Keeper.SetOrderCount", [])
]

def x_order_keeper_order_management_go : List (String × List String) := [
  ("Keeper.GenerateShards", ["if len(sps) > 0", "range sps"]),
  ("Keeper.NewOrder", []),
  ("Keeper.RefundOrder", ["if !found => return status.Errorf(codes.NotFound, \"order %d not found\", orderId)", "if order.PaymentDid != \"\"", "if err != nil => return err"]),
  ("Keeper.RenewOrder", ["if err != nil => return err", "if err != nil => return err"]),
  ("Keeper.TerminateOrder", ["if !found => return status.Errorf(codes.NotFound, \"order %d not found\", orderId)", "if order.Status != types.OrderCompleted => return sdkerrors.Wrapf(types.ErrOrderUnexpectedStatus, \"invalid order status, expect complete\")", "if err != nil", "if err != nil => return err", "if !refundCoin.IsZero()", "if err != nil => return err"])
]

def x_order_keeper_params_go : List (String × List String) := [
  ("Keeper.GetParams", []),
  ("Keeper.SetParams", [])
]

def x_order_keeper_shard_go : List (String × List String) := [
  ("GetShardIDBytes", []),
  ("GetShardIDFromBytes", []),
  ("Keeper.AppendShard", []),
  ("Keeper.GetAllShard", ["for iterator.Valid()"]),
  ("Keeper.GetAllShardWithIdAndSp", ["for iterator.Valid() && GetShardIDFromBytes(iterator.Key()) >= shardId", "if val.Sp == sp"]),
  ("Keeper.GetShard", ["if b == nil => return false"]),
  ("Keeper.GetShardCount", ["if bz == nil => return 0"]),
  ("Keeper.RemoveShard", []),
  ("Keeper.SetShard", []),
  ("Keeper.SetShardCount", [])
]

def x_order_keeper_shard_management_go : List (String × List String) := [
  ("Keeper.FulfillShard", []),
  ("Keeper.GetOrderShardBySP", ["range order.Shards", "if found && shard.Sp == sp => return &shard"]),
  ("Keeper.MigrateShard", []),
  ("Keeper.NewShardTask", []),
  ("Keeper.RenewShard", ["if shard == nil => return status.Errorf(codes.NotFound, \"shard of %s not found\", sp)"]),
  ("Keeper.TerminateShard", [])
]

def x_order_module_go : List (String × List String) := [
  ("AppModule.BeginBlock", []),
  ("AppModule.ConsensusVersion", []),
  ("AppModule.EndBlock", []),
  ("AppModule.ExportGenesis", []),
  ("AppModule.InitGenesis", []),
  ("AppModule.LegacyQuerierHandler", []),
  ("AppModule.QuerierRoute", []),
  ("AppModule.RegisterInvariants", []),
  ("AppModule.RegisterServices", ["if err != nil => panic"]),
  ("AppModule.Route", []),
  ("AppModuleBasic.DefaultGenesis", []),
  ("AppModuleBasic.GetQueryCmd", []),
  ("AppModuleBasic.GetTxCmd", []),
  ("AppModuleBasic.Name", []),
  ("AppModuleBasic.RegisterGRPCGatewayRoutes", []),
  ("AppModuleBasic.RegisterInterfaces", []),
  ("AppModuleBasic.RegisterLegacyAminoCodec", []),
  ("AppModuleBasic.ValidateGenesis", ["if err != nil => return fmt.Errorf(\"failed to unmarshal %s genesis state: %w\", types.ModuleName, err)"]),
  ("NewAppModule", []),
  ("NewAppModuleBasic", [])
]

def x_order_module_simulation_go : List (String × List String) := [
  ("AppModule.GenerateGenesisState", ["range simState.Accounts"]),
  ("AppModule.ProposalContents", []),
  ("AppModule.RandomizedParams", []),
  ("AppModule.RegisterStoreDecoder", []),
  ("AppModule.WeightedOperations", [])
]

def x_order_types_codec_go : List (String × List String) := [
  ("RegisterCodec", []),
  ("RegisterInterfaces", [])
]

def x_order_types_genesis_go : List (String × List String) := [
  ("DefaultGenesis", []),
  ("GenesisState.Validate", ["range gs.OrderList", "if ok => return fmt.Errorf(\"duplicated id for order\")", "if elem.Id >= orderCount => return fmt.Errorf(\"order id should be lower or equal than the last id\")", "range gs.ShardList", "if ok => return fmt.Errorf(\"duplicated id for shard\")", "if elem.Id >= shardCount => return fmt.Errorf(\"shard id should be lower or equal than the last id\")"])
]

def x_order_types_keys_go : List (String × List String) := [
  ("KeyPrefix", [])
]

def x_order_types_params_go : List (String × List String) := [
  ("*Params.ParamSetPairs", []),
  ("DefaultParams", []),
  ("NewParams", []),
  ("ParamKeyTable", []),
  ("Params.String", []),
  ("Params.Validate", [])
]

def x_sao_abci_go : List (String × List String) := [
  ("EndBlocker", ["if found", "range TimeoutOrder.OrderList", "if found", "range ExpiredShard.ShardList"])
]

def x_sao_genesis_go : List (String × List String) := [
  ("ExportGenesis", []),
  ("InitGenesis", ["range genState.TimeoutOrderList", "range genState.ExpiredShardList"])
]

def x_sao_keeper_expire_management_go : List (String × List String) := [
  ("Keeper.HandleExpiredShard", ["if !found => return", "if !found => return", "if len(shard.RenewInfos) == 0", "if len(order.Shards) == 1", "if order.Shards[0] == shardId", "range order.Shards", "if id == shardId => break"])
]

def x_sao_keeper_expired_shard_go : List (String × List String) := [
  ("Keeper.GetAllExpiredShard", ["for iterator.Valid()"]),
  ("Keeper.GetExpiredShard", ["if b == nil => return false"]),
  ("Keeper.RemoveExpiredShard", []),
  ("Keeper.SetExpiredShard", []),
  ("Keeper.SetExpiredShardBlock", ["if found"]),
  ("Keeper.SetExpiredShardsBlock", ["range expiredShardsMap", "if found"])
]

def x_sao_keeper_grpc_query_expired_shard_go : List (String × List String) := [
  ("Keeper.ExpiredShard", ["if req == nil => return status.Error(codes.InvalidArgument, \"invalid request\")", "if !found => return status.Error(codes.NotFound, \"not found\")"]),
  ("Keeper.ExpiredShardAll", ["if req == nil => return status.Error(codes.InvalidArgument, \"invalid request\")", "func literal", "if err != nil => return err", "if err != nil => return status.Error(codes.Internal, err.Error())"])
]

def x_sao_keeper_grpc_query_latesthight_go : List (String × List String) := [
  ("Keeper.Latesthight", ["if req == nil => return status.Error(codes.InvalidArgument, \"invalid request\")"])
]

def x_sao_keeper_grpc_query_metadata_go : List (String × List String) := [
  ("Keeper.Metadata", ["if req == nil => return status.Error(codes.InvalidArgument, \"invalid request\")", "if proposal.KeywordType > 1", "if !isFound => return status.Errorf(codes.NotFound, \"dataId not found by Alias: %s\", proposal.Keyword)", "if !isFound => return status.Errorf(codes.NotFound, \"dataId:%s not found\", dataId)", "if !found => return status.Errorf(codes.NotFound, \"order:%d not found\", meta.OrderId)", "range order.Shards", "if !found => return status.Errorf(codes.NotFound, \"shard %d not found\", id)", "if !node_found => continue"])
]

def x_sao_keeper_grpc_query_net_version_go : List (String × List String) := [
  ("Keeper.NetVersion", ["if req == nil => return status.Error(codes.InvalidArgument, \"invalid request\")"])
]

def x_sao_keeper_grpc_query_params_go : List (String × List String) := [
  ("Keeper.Params", ["if req == nil => return status.Error(codes.InvalidArgument, \"invalid request\")"])
]

def x_sao_keeper_grpc_query_timeout_order_go : List (String × List String) := [
  ("Keeper.TimeoutOrder", ["if req == nil => return status.Error(codes.InvalidArgument, \"invalid request\")", "if !found => return status.Error(codes.NotFound, \"not found\")"]),
  ("Keeper.TimeoutOrderAll", ["if req == nil => return status.Error(codes.InvalidArgument, \"invalid request\")", "func literal", "if err != nil => return err", "if err != nil => return status.Error(codes.Internal, err.Error())"])
]

def x_sao_keeper_keeper_go : List (String × List String) := [
  ("Keeper.FindSPByDataId", ["if !found => return nodes", "if !found => return nodes", "range order.Shards", "if !found => continue", "if found"]),
  ("Keeper.FindShardsByOrderId", ["if !found => return shards", "range order.Shards", "if !found => continue"]),
  ("Keeper.Logger", []),
  ("NewKeeper", ["if !ps.HasKeyTable()"])
]

def x_sao_keeper_migrations_go : List (String × List String) := [
  ("NewMigrator", [])
]

def x_sao_keeper_msg_server_go : List (String × List String) := [
  ("NewMsgServerImpl", [])
]

def x_sao_keeper_msg_server_cancel_go : List (String × List String) := [
  ("msgServer.Cancel", ["if !found => return sdkerrors.Wrapf(types.ErrOrderNotFound, \"order %d not found\", msg.OrderId)", "if order.Creator == msg.Creator", "if msg.Provider == order.Provider", "if found", "range node.TxAddresses", "if order.Creator == address", "if !isCreator => return sdkerrors.Wrapf(types.ErrNotCreator, \"only order creator allowed\")", "if order.Status == ordertypes.OrderCompleted => return sdkerrors.Wrapf(types.ErrOrderCompleted, \"order %d already completed\", msg.OrderId)", "if msg.Provider == msg.Creator", "if found", "range provider.TxAddresses", "if address == msg.Creator", "if !isProvider => return sdkerrors.Wrapf(types.ErrorInvalidProvider, \"msg.Creator: %s, msg.Provider: %s\", msg.Creator, msg.Provider)", "range order.Shards", "if !found => return status.Errorf(codes.NotFound, \"shard %d not found\", id)", "if shard.Status == ordertypes.ShardCompleted", "if err != nil => return err", "if err != nil => return err"])
]

def x_sao_keeper_msg_server_complete_go : List (String × List String) := [
  ("emitEvent", ["if (*err) != nil"]),
  ("msgServer.Complete", ["if msg.Size_ == 0 => return err", "if !found => return err", "if msg.Provider == msg.Creator", "if found", "range provider.TxAddresses", "if address == msg.Creator", "if !isProvider => return sdkerrors.Wrapf(types.ErrorInvalidProvider, \"msg.Creator: %s, msg.Provider: %s\", msg.Creator, msg.Provider)", "if shard == nil => return err", "if shard.Status == ordertypes.ShardCompleted => return err", "if shard.Status != ordertypes.ShardWaiting && shard.Status != ordertypes.ShardMigrating => return err", "if msg.Size_ != shard.Size_ => return err", "if !isFoundMeta => return status.Errorf(codes.NotFound, \"metadata %s not found\", order.DataId)", "if meta.Status != modeltypes.MetaNew && meta.Status != modeltypes.MetaComplete && meta.Status != int32(order.Operation) => return err", "if len(meta.Orders) != 0", "if isFound", "if lastOrder.Status == ordertypes.OrderPending || lastOrder.Status == ordertypes.OrderInProgress || lastOrder.Status == ordertypes.OrderDataReady => return sdkerrors.Wrapf(nodetypes.ErrInvalidLastOrder, \"unexpected last order: %s, status: %d\", meta.OrderId, lastOrder.Status)", "if err != nil => return err", "if shard.Status == ordertypes.ShardMigrating", "if shard.From == \"\" => return err", "if err != nil => return err", "if oldShard.OrderId != order.Id", "if err != nil => return err", "for i < len(oldShard.RenewInfos)", "if renewOrderId == order.Id || renewOrderId == orderInProgress.Id => continue", "if found", "range orderList", "range order.Shards", "if id != oldShard.Id && (i == 0 || id != shard.Id)", "if i > 0", "if order.Status != ordertypes.OrderCompleted", "if err != nil => return err", "if err != nil => return err", "if err != nil => return err"])
]

def x_sao_keeper_msg_server_migrate_go : List (String × List String) := [
  ("msgServer.Migrate", ["if msg.Provider == msg.Creator", "if found", "range provider.TxAddresses", "if address == msg.Creator", "if !isProvider => return sdkerrors.Wrapf(types.ErrorInvalidProvider, \"msg.Creator: %s, msg.Provider: %s\", msg.Creator, msg.Provider)", "range msg.Data", "if !found => continue", "for i >= 0", "if !found => continue", "if ok => continue", "if oldShard == nil => continue", "if oldShard.Status != ordertypes.ShardCompleted => continue", "range oldOrder.Shards", "if !found => continue", "if shard.From == msg.Provider => continue", "if len(sps) == 0 => continue"])
]

def x_sao_keeper_msg_server_ready_go : List (String × List String) := [
  ("msgServer.Ready", ["if !found => return sdkerrors.Wrapf(types.ErrOrderNotFound, \"order %d not found\", msg.OrderId)", "if order.Provider == msg.Creator && msg.Provider == msg.Creator", "if order.Provider == msg.Provider", "if found", "range provider.TxAddresses", "if address == msg.Creator", "if !isProvider => return sdkerrors.Wrapf(types.ErrorInvalidProvider, \"msg.Creator: %s, msg.Provider: %s\", msg.Creator, order.Provider)", "if order.Status != ordertypes.OrderPending => return sdkerrors.Wrapf(types.ErrOrderUnexpectedStatus, \"expect pending order\")", "if err != nil => return err", "range sps", "range order.Shards", "if !found => return status.Errorf(codes.NotFound, \"shard %d not found\", id)", "if !node_found => continue"])
]

def x_sao_keeper_msg_server_recover_faults_go : List (String × List String) := [
  ("msgServer.RecoverFaults", ["if !found => return sdkerrors.Wrapf(nodetypes.ErrNodeNotFound, \"%s\", msg.Creator)", "if msg.Creator == msg.Provider", "if node.Status & nodetypes.NODE_STATUS_SERVE_STORAGE == 0 => return sdkerrors.Wrapf(nodetypes.ErrInvalidStatus, \"%s\", msg.Creator)", "if !strings.Contains(fishmenInfo, node.Creator) => return sdkerrors.Wrapf(nodetypes.ErrInvalidFinshmen, \"%s is not a fishmen\", msg.Creator)", "if !foundPool => return sdkerrors.Wrap(types.ErrorGetPoolInfoFailed, \"\")", "range msg.Faults", "if msg.Provider != fault.Provider => continue", "if !found => continue", "if !found => continue", "if orderMeta.DataId != fault.DataId || !strings.Contains(orderMeta.Commit, fault.CommitId) => continue", "range orderMeta.Shards", "if found && shard.Sp == fault.Provider => break", "if shard.CreatedAt + shard.Duration > uint64(ctx.BlockHeight())", "if !isValidInfo => continue", "if found", "if faultOrg.DataId != faultMeta.DataId || faultOrg.OrderId != faultMeta.OrderId || faultOrg.ShardId != faultMeta.ShardId => continue", "if msg.Provider == msg.Creator && faultOrg.Provider == msg.Creator", "if strings.Contains(faultOrg.Confirms, \"-\" + msg.Creator)", "if faultMeta.Status == nodetypes.FaultStatusRecovering", "if strings.Count(faultMeta.Confirms, \"+\") == strings.Count(faultMeta.Confirms, \"-\")", "if found => continue", "if pledge.Reward.Amount.LT(penalty)", "if pledge.RewardDebt.Amount.LT(penalty)", "if pledged.Amount.LT(penalty)", "if found", "if found", "if confirmersCount > 0", "range strings.Split(confirmers, \"|\")", "if found", "if len(declaredFaults) > 0", "range declaredFaults", "if len(recoveredFaults) > 0", "range recoveredFaults", "if index > 0"])
]

def x_sao_keeper_msg_server_renew_go : List (String × List String) := [
  ("msgServer.Renew", ["if err != nil => return err", "if msg.Provider == msg.Creator", "if found", "range provider.TxAddresses", "if address == msg.Creator", "if !isProvider => return sdkerrors.Wrapf(types.ErrorInvalidProvider, \"msg.Creator: %s, msg.Provider: %s\", msg.Creator, msg.Provider)", "if proposal.Duration < 3600 => return status.Errorf(codes.InvalidArgument, \"invalid duration\")", "if proposal.Duration > MaxRenewDuration => return sdkerrors.Wrapf(types.ErrorInvalidDuration, \"renew duration: %d, max renew duration: %d\", proposal.Duration, MaxRenewDuration)", "if !found => return sdkerrors.Wrapf(nodetypes.ErrPoolNotFound, \"pool not found\")", "if err != nil => return err", "range proposal.Data", "if !found => continue", "if metadata.Owner != sigDid => continue", "if metadata.Status != modeltypes.MetaComplete => continue", "if !found => continue", "range order.Shards", "if !found => continue", "if shard.Status != ordertypes.ShardCompleted && shard.Status != ordertypes.ShardMigrating => continue", "if shard.Status == ordertypes.ShardCompleted", "if order.Status != ordertypes.OrderCompleted => continue", "if orderExpiredAt < currentHeight => continue", "if !dec.IsZero()", "if err != nil => continue", "range shards", "if shard.Status == ordertypes.ShardMigrating => continue", "if !dec.IsZero()", "if newPledge.Amount.GT(shard.Pledge.Amount)", "if spBalance.IsGTE(extraPledge)", "if !found", "range shard.RenewInfos", "if shardExpiredAt > newExpiredAt"])
]

def x_sao_keeper_msg_server_report_faults_go : List (String × List String) := [
  ("msgServer.ReportFaults", ["if !found => return sdkerrors.Wrapf(nodetypes.ErrNodeNotFound, \"%s\", msg.Creator)", "if !strings.Contains(fishmenInfo, node.Creator) => return sdkerrors.Wrapf(nodetypes.ErrInvalidFinshmen, \"%s is not a fishmen\", msg.Creator)", "range msg.Faults", "if msg.Provider != fault.Provider => continue", "if !found => continue", "if !found => continue", "if orderMeta.DataId != fault.DataId || strings.Contains(orderMeta.Commit, fault.CommitId) => continue", "range orderMeta.Shards", "if shardId != fault.ShardId => continue", "if found && shard.Sp == fault.Provider => break", "if shard.CreatedAt + shard.Duration > uint64(ctx.BlockHeight())", "if !isValidInfo => continue", "if found", "if faultOrg.DataId != faultMeta.DataId || faultOrg.OrderId != faultMeta.OrderId || faultOrg.ShardId != faultMeta.ShardId => continue", "if faultOrg.Reporter != faultMeta.Reporter", "if strings.Contains(faultOrg.Confirms, \"+\" + faultMeta.Reporter) => continue", "if strings.Count(faultMeta.Confirms, \"+\") > 2", "if len(reportedFaults) > 0", "range reportedFaults", "if len(confirmedFaults) > 0", "range confirmedFaults", "if index > 0"])
]

def x_sao_keeper_msg_server_store_go : List (String × List String) := [
  ("Keeper.GetSps", ["if order.Operation == 1", "if order.Replica <= 0 || int(order.Replica) > len(sps) => return sdkerrors.Wrapf(types.ErrInvalidReplica, \"replica should > 0 and <= %d\", len(sps))", "if order.Operation == 2", "if order.Replica <= 0 => return sdkerrors.Wrapf(types.ErrInvalidReplica, \"replica should > 0\")", "if order.Replica < int32(len(sps))", "if order.Replica > int32(len(sps))", "range sps", "if int(order.Replica) > len(sps) => return sdkerrors.Wrapf(types.ErrInvalidReplica, \"replica should <= %d\", len(sps))"]),
  ("msgServer.Store", ["if proposal == nil => return status.Errorf(codes.InvalidArgument, \"proposal is required\")", "if err != nil => return err", "if proposal.CommitId == \"\" => return status.Errorf(codes.InvalidArgument, \"invalid commitId\")", "if proposal.DataId == \"\" => return status.Errorf(codes.InvalidArgument, \"invalid dataId\")", "if proposal.Operation < 1 || proposal.Operation > 2 => return status.Errorf(codes.InvalidArgument, \"invalid operation %d\", proposal.Operation)", "if proposal.Duration < 3600 => return status.Errorf(codes.InvalidArgument, \"invalid duration\")", "if err != nil => return sdkerrors.Wrapf(types.ErrInvalidCid, \"invalid cid: %s\", proposal.Cid)", "if isFound || !strings.Contains(proposal.CommitId, proposal.DataId)", "if !isFound => return status.Errorf(codes.NotFound, \"metadata :%s not found\", proposal.DataId)", "if !isValid", "range meta.ReadwriteDids", "if readwriteDid == sigDid => break", "if !isValid => return sdkerrors.Wrap(types.ErrorNoPermission, \"No permission to update the model\")", "if proposal.PaymentDid != \"\"", "if !strings.HasPrefix(proposal.PaymentDid, \"did:key:\") => return sdkerrors.Wrapf(types.ErrorNotKid, \"got payment did %s\", proposal.PaymentDid)", "if err != nil => return sdkerrors.Wrap(err, \"invalid payment did\")", "if paymentAddress.String() != msg.Creator => return sdkerrors.Wrap(types.ErrorNoPermission, \"creator should be payment address of payment DID\")", "if !found => return sdkerrors.Wrapf(nodetypes.ErrNodeNotFound, \"%s does not register yet\", node.Creator)", "if strings.Contains(proposal.CommitId, \"|\")", "if proposal.Size_ == 0", "if proposal.Timeout <= 0 => return status.Errorf(codes.InvalidArgument, \"invalid arguments: timeout\")", "if node.Creator != \"\"", "if proposal.PaymentDid != \"\"", "if paymentAddress.Empty()", "if err != nil", "if order.Provider == msg.Creator && msg.Provider == msg.Creator", "if order.Provider == msg.Provider", "if found", "range provider.TxAddresses", "if address == msg.Creator", "if !isProvider => return sdkerrors.Wrapf(types.ErrorInvalidProvider, \"msg.Creator: %s, msg.Provider: %s\", msg.Creator, order.Provider)", "if isProvider", "if err != nil => return err", "if order.Size_ == 0", "if !dec.IsZero()", "if paymentAddress.Empty()", "if err != nil => return err", "if balance.IsLT(amount) => return sdkerrors.Wrapf(types.ErrInsufficientCoin, \"insufficient coin: need %d\", amount.Amount.Int64())", "if err != nil => return err", "range sps", "if err != nil => return err", "if isProvider", "if found", "if meta.OrderId > orderId => return sdkerrors.Wrapf(nodetypes.ErrInvalidCommitId, \"invalid commitId: %s, detected version conflicts with order: %d\", commitId, meta.OrderId)", "if isFound", "if lastOrder.Status != ordertypes.OrderCompleted => return sdkerrors.Wrapf(nodetypes.ErrInvalidLastOrder, \"unexpected last order: %s, status: %d\", meta.OrderId, lastOrder.Status)", "if !strings.Contains(meta.Commit, lastCommitId) => return sdkerrors.Wrapf(nodetypes.ErrInvalidCommitId, \"invalid commitId: %s, detected version conficts, should be %s\", lastCommitId, meta.Commit[:36])", "if err != nil => return err", "if err != nil => return err", "if isProvider => return", "range order.Shards", "if !found => return status.Errorf(codes.NotFound, \"shard %d not found\", id)", "if !node_found => continue"])
]

def x_sao_keeper_msg_server_terminate_go : List (String × List String) := [
  ("msgServer.Terminate", ["if proposal == nil => return status.Errorf(codes.InvalidArgument, \"proposal is required\")", "if msg.Provider == msg.Creator", "if found", "range provider.TxAddresses", "if address == msg.Creator", "if !isProvider => return sdkerrors.Wrapf(types.ErrorInvalidProvider, \"msg.Creator: %s, msg.Provider: %s\", msg.Creator, msg.Provider)", "if err != nil => return err", "if !isFound => return status.Errorf(codes.NotFound, \"dataId:%s not found\", msg.Proposal.DataId)", "if !isValid", "range meta.ReadwriteDids", "if readwriteDid == sigDid => break", "if !isValid => return sdkerrors.Wrap(types.ErrorNoPermission, \"No permission to delete the model\")", "range meta.Orders", "if !found => continue", "range order.Shards", "if err != nil => return err", "range shardSet", "if err != nil => return err"])
]

def x_sao_keeper_msg_server_updata_permission_go : List (String × List String) := [
  ("msgServer.UpdataPermission", ["if proposal == nil => return status.Errorf(codes.InvalidArgument, \"proposal is required\")", "if msg.Provider == msg.Creator", "if found", "range provider.TxAddresses", "if address == msg.Creator", "if !isProvider => return sdkerrors.Wrapf(types.ErrorInvalidProvider, \"msg.Creator: %s, msg.Provider: %s\", msg.Creator, msg.Provider)", "if err != nil => return err", "func literal", "range didList", "if err != nil => return sdkerrors.Wrap(types.ErrorInvalidDid, fmt.Sprintf(\"invalid did: %v, err: %v\", did, err))", "if err != nil => return err", "if err != nil => return err", "if err != nil => return sdkerrors.Wrap(err, \"\")"])
]

def x_sao_keeper_params_go : List (String × List String) := [
  ("Keeper.GetParams", []),
  ("Keeper.SetParams", [])
]

def x_sao_keeper_timeout_management_go : List (String × List String) := [
  ("Keeper.HandleTimeoutOrder", ["if !found => return", "if order.Status == ordertypes.OrderPending => return", "range order.Shards", "if !found => continue", "if shard.Status == ordertypes.ShardWaiting", "if shard.Status == ordertypes.ShardCompleted", "if timeoutCount == 0 => return", "range uncompletedShards", "if len(uncompletedShards) != 0", "if !lastChance", "if len(randSp) == 0", "if lastChance || uint64(ctx.BlockHeight()) - order.CreatedAt > MaxTries * order.Timeout => return", "if order.Status != ordertypes.OrderCompleted", "range order.Shards", "range uncompletedShards", "if !refundCoin.IsZero()", "if order.PaymentDid != \"\"", "if err == nil", "if err != nil", "range randSp"])
]

def x_sao_keeper_timeout_order_go : List (String × List String) := [
  ("Keeper.GetAllTimeoutOrder", ["for iterator.Valid()"]),
  ("Keeper.GetTimeoutOrder", ["if b == nil => return false"]),
  ("Keeper.RemoveTimeoutOrder", []),
  ("Keeper.SetTimeoutOrder", []),
  ("Keeper.SetTimeoutOrderBlock", ["if found"])
]

def x_sao_keeper_verify_go : List (String × List String) := [
  ("Keeper.verifySignature", ["if err != nil => return sdkerrors.Wrap(types.ErrorInvalidProposal, \"\")", "func literal", "if err != nil => return", "if !found || len(versions.VersionList) == 0 || versions.VersionList[len(versions.VersionList) - 1] != versionId => return", "if found => return", "range doc.Keys", "if err != nil => return sdkerrors.Wrap(types.ErrorInvalidDid, \"\")", "if err != nil => return sdkerrors.Wrap(types.ErrorInvalidSignature, err.Error())", "if err != nil => return sdkerrors.Wrap(types.ErrorInvalidSignature, err.Error())", "if err != nil => return sdkerrors.Wrap(types.ErrorInvalidSignature, err.Error())"])
]

def x_sao_module_go : List (String × List String) := [
  ("AppModule.BeginBlock", []),
  ("AppModule.ConsensusVersion", []),
  ("AppModule.EndBlock", []),
  ("AppModule.ExportGenesis", []),
  ("AppModule.InitGenesis", []),
  ("AppModule.LegacyQuerierHandler", []),
  ("AppModule.QuerierRoute", []),
  ("AppModule.RegisterInvariants", []),
  ("AppModule.RegisterServices", []),
  ("AppModule.Route", []),
  ("AppModuleBasic.DefaultGenesis", []),
  ("AppModuleBasic.GetQueryCmd", []),
  ("AppModuleBasic.GetTxCmd", []),
  ("AppModuleBasic.Name", []),
  ("AppModuleBasic.RegisterGRPCGatewayRoutes", []),
  ("AppModuleBasic.RegisterInterfaces", []),
  ("AppModuleBasic.RegisterLegacyAminoCodec", []),
  ("AppModuleBasic.ValidateGenesis", ["if err != nil => return fmt.Errorf(\"failed to unmarshal %s genesis state: %w\", types.ModuleName, err)"]),
  ("NewAppModule", []),
  ("NewAppModuleBasic", [])
]

def x_sao_module_simulation_go : List (String × List String) := [
  ("AppModule.GenerateGenesisState", ["range simState.Accounts"]),
  ("AppModule.ProposalContents", []),
  ("AppModule.RandomizedParams", []),
  ("AppModule.RegisterStoreDecoder", []),
  ("AppModule.WeightedOperations", ["func literal", "func literal", "func literal", "func literal", "func literal", "func literal", "func literal", "func literal", "func literal", "func literal"])
]

def x_sao_types_codec_go : List (String × List String) := [
  ("RegisterCodec", []),
  ("RegisterInterfaces", [])
]

def x_sao_types_genesis_go : List (String × List String) := [
  ("DefaultGenesis", []),
  ("GenesisState.Validate", ["range gs.TimeoutOrderList", "if ok => return fmt.Errorf(\"duplicated index for timeoutOrder\")", "range gs.ExpiredShardList", "if ok => return fmt.Errorf(\"duplicated index for expiredShard\")"])
]

def x_sao_types_key_expired_shard_go : List (String × List String) := [
  ("ExpiredShardKey", [])
]

def x_sao_types_key_timeout_order_go : List (String × List String) := [
  ("TimeoutOrderKey", [])
]

def x_sao_types_keys_go : List (String × List String) := [
  ("KeyPrefix", [])
]

def x_sao_types_message_cancel_go : List (String × List String) := [
  ("*MsgCancel.GetSignBytes", []),
  ("*MsgCancel.GetSigners", ["if err != nil => panic"]),
  ("*MsgCancel.Route", []),
  ("*MsgCancel.Type", []),
  ("*MsgCancel.ValidateBasic", ["if err != nil => return sdkerrors.Wrapf(sdkerrors.ErrInvalidAddress, \"invalid creator address (%s)\", err)"]),
  ("NewMsgCancel", [])
]

def x_sao_types_message_complete_go : List (String × List String) := [
  ("*MsgComplete.GetSignBytes", []),
  ("*MsgComplete.GetSigners", ["if err != nil => panic"]),
  ("*MsgComplete.Route", []),
  ("*MsgComplete.Type", []),
  ("*MsgComplete.ValidateBasic", ["if err != nil => return sdkerrors.Wrapf(sdkerrors.ErrInvalidAddress, \"invalid creator address (%s)\", err)"]),
  ("NewMsgComplete", [])
]

def x_sao_types_message_migrate_go : List (String × List String) := [
  ("*MsgMigrate.GetSignBytes", []),
  ("*MsgMigrate.GetSigners", ["if err != nil => panic"]),
  ("*MsgMigrate.Route", []),
  ("*MsgMigrate.Type", []),
  ("*MsgMigrate.ValidateBasic", ["if err != nil => return sdkerrors.Wrapf(sdkerrors.ErrInvalidAddress, \"invalid creator address (%s)\", err)"]),
  ("NewMsgMigrate", [])
]

def x_sao_types_message_ready_go : List (String × List String) := [
  ("*MsgReady.GetSignBytes", []),
  ("*MsgReady.GetSigners", ["if err != nil => panic"]),
  ("*MsgReady.Route", []),
  ("*MsgReady.Type", []),
  ("*MsgReady.ValidateBasic", ["if err != nil => return sdkerrors.Wrapf(sdkerrors.ErrInvalidAddress, \"invalid creator address (%s)\", err)"]),
  ("NewMsgReady", [])
]

def x_sao_types_message_recover_faults_go : List (String × List String) := [
  ("*MsgRecoverFaults.GetSignBytes", []),
  ("*MsgRecoverFaults.GetSigners", ["if err != nil => panic"]),
  ("*MsgRecoverFaults.Route", []),
  ("*MsgRecoverFaults.Type", []),
  ("*MsgRecoverFaults.ValidateBasic", ["if err != nil => return sdkerrors.Wrapf(sdkerrors.ErrInvalidAddress, \"invalid creator address (%s)\", err)"]),
  ("NewMsgRecoverFaults", [])
]

def x_sao_types_message_renew_go : List (String × List String) := [
  ("*MsgRenew.GetSignBytes", []),
  ("*MsgRenew.GetSigners", ["if err != nil => panic"]),
  ("*MsgRenew.Route", []),
  ("*MsgRenew.Type", []),
  ("*MsgRenew.ValidateBasic", ["if err != nil => return sdkerrors.Wrapf(sdkerrors.ErrInvalidAddress, \"invalid creator address (%s)\", err)"]),
  ("NewMsgRenew", [])
]

def x_sao_types_message_report_faults_go : List (String × List String) := [
  ("*MsgReportFaults.GetSignBytes", []),
  ("*MsgReportFaults.GetSigners", ["if err != nil => panic"]),
  ("*MsgReportFaults.Route", []),
  ("*MsgReportFaults.Type", []),
  ("*MsgReportFaults.ValidateBasic", ["if err != nil => return sdkerrors.Wrapf(sdkerrors.ErrInvalidAddress, \"invalid creator address (%s)\", err)"]),
  ("NewMsgReportFaults", [])
]

def x_sao_types_message_store_go : List (String × List String) := [
  ("*MsgStore.GetSignBytes", []),
  ("*MsgStore.GetSigners", ["if err != nil => panic"]),
  ("*MsgStore.Route", []),
  ("*MsgStore.Type", []),
  ("*MsgStore.ValidateBasic", ["if err != nil => return sdkerrors.Wrapf(sdkerrors.ErrInvalidAddress, \"invalid creator address (%s)\", err)"]),
  ("NewMsgStore", [])
]

def x_sao_types_message_terminate_go : List (String × List String) := [
  ("*MsgTerminate.GetSignBytes", []),
  ("*MsgTerminate.GetSigners", ["if err != nil => panic"]),
  ("*MsgTerminate.Route", []),
  ("*MsgTerminate.Type", []),
  ("*MsgTerminate.ValidateBasic", ["if err != nil => return sdkerrors.Wrapf(sdkerrors.ErrInvalidAddress, \"invalid creator address (%s)\", err)"]),
  ("NewMsgTerminate", [])
]

def x_sao_types_message_updata_permission_go : List (String × List String) := [
  ("*MsgUpdataPermission.GetSignBytes", []),
  ("*MsgUpdataPermission.GetSigners", ["if err != nil => panic"]),
  ("*MsgUpdataPermission.Route", []),
  ("*MsgUpdataPermission.Type", []),
  ("*MsgUpdataPermission.ValidateBasic", ["if err != nil => return sdkerrors.Wrapf(sdkerrors.ErrInvalidAddress, \"invalid creator address (%s)\", err)"]),
  ("NewMsgUpdataPermission", [])
]

def x_sao_types_params_go : List (String × List String) := [
  ("*Params.ParamSetPairs", []),
  ("DefaultParams", []),
  ("NewParams", []),
  ("ParamKeyTable", []),
  ("Params.String", []),
  ("Params.Validate", [])
]

end SaoVerif.Expected.Skel
