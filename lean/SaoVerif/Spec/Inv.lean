import SaoVerif.Model.Step
/-! Decidable state predicates of the properties. The *same* definitions are used by the
    theorems (Properties/) and by the run-time monitors evaluated on implementation states. -/
namespace SaoVerif.Spec
open SaoVerif

/-! ### C13 referential integrity -/
/-- every shard an order lists exists -/
def ordersListExisting (s : State) : Bool :=
  s.orders.all (fun o => o.shards.all (fun id => (s.getShard id).isSome))

/-- every existing shard is listed by the existing order it names -/
def shardsListedByOrder (s : State) : Bool :=
  s.shards.all (fun sh => match s.getOrder sh.orderId with
    | some o => o.shards.contains sh.id
    | none => false)

/-- every completed shard has a release scheduled at the end of its current paid period -/
def completedScheduled (s : State) : Bool :=
  s.shards.all (fun sh => sh.status ≠ ShardCompleted ||
    ((Map.find? s.expiredShardQ (addU64 sh.createdAt sh.duration)).getD []).contains sh.id)

/-- every data model has exactly one alias entry pointing back at it, and no alias dangles -/
def aliasesAgree (s : State) : Bool :=
  s.metas.all (fun m => (s.models.filter (fun e => e.data = m.dataId)).length = 1 &&
                        (s.getModel (metaKey m)).map (·.data) = some m.dataId) &&
  s.models.all (fun e => (s.getMeta e.data).isSome)

def refInv (s : State) : Bool :=
  ordersListExisting s && shardsListedByOrder s && completedScheduled s && aliasesAgree s

/-! ### C14 aggregate accounting / C07 capacity bounds -/
def completedShardsOf (s : State) (p : Addr) : List Shard :=
  s.shards.filter (fun sh => sh.sp = p && sh.status = ShardCompleted)

def sumNat (l : List Nat) : Nat := l.foldl (· + ·) 0
def sumInt (l : List Int) : Int := l.foldl (· + ·) 0

def usedAgrees (s : State) (p : Pledge) : Bool :=
  p.usedStorage = (sumNat ((completedShardsOf s p.creator).map (·.size)) : Int)

def workerAgrees (s : State) (p : Addr) : Bool :=
  let shs := completedShardsOf s p
  let w := (s.getWorker p).getD { sp := p, storage := 0, reward := 0, incomePerSecond := 0, lastRewardAt := 0 }
  w.storage = sumNat (shs.map (·.size)) &&
  w.incomePerSecond = sumInt (shs.map (fun sh =>
      Dec.mulInt ((s.getOrder sh.orderId).map (·.unitPrice) |>.getD 0) sh.size))

def shardPledgeAgrees (s : State) (p : Pledge) : Bool :=
  p.totalShardPledged = sumInt ((completedShardsOf s p.creator).map (·.pledge))

def poolAgrees (s : State) : Bool :=
  match s.pool with
  | none => s.pledges.isEmpty
  | some pool =>
    pool.totalStorage = sumInt (s.pledges.map (·.totalStorage)) &&
    pool.totalPledged = sumInt (s.pledges.map (·.totalStoragePledged))

def providersOf (s : State) : List Addr :=
  (s.pledges.map (·.creator) ++ s.workers.map (·.sp) ++ s.shards.map (·.sp)).eraseDups

def aggInv (s : State) : Bool :=
  s.pledges.all (fun p => usedAgrees s p && shardPledgeAgrees s p) &&
  (providersOf s).all (workerAgrees s) &&
  (s.shards.all (fun sh => sh.status ≠ ShardCompleted || (s.getPledge sh.sp).isSome)) &&
  poolAgrees s

def usedBounds (s : State) : Bool :=
  s.pledges.all (fun p => 0 ≤ p.usedStorage && p.usedStorage ≤ p.totalStorage)

/-! ### C16 identifier freshness -/
def idsFresh (s : State) : Bool :=
  s.orders.all (fun o => o.id < s.getOrderCount) && s.shards.all (fun sh => sh.id < s.shardCount)

/-- at most one update in flight: a model whose status is not Complete names exactly one
    not-yet-completed order, namely `orderId` -/
def oneInFlight (s : State) : Bool :=
  s.metas.all (fun m =>
    let open_ := s.orders.filter (fun o => o.dataId = m.dataId && o.status ≠ OrderCompleted)
    if m.status = MetaComplete then open_.isEmpty else open_.map (·.id) = [m.orderId])

/-! ### C20 super-node predicate -/
def superPredicate (s : State) (n : Node) : Bool :=
  (n.status &&& ST_SUPER_REQ = ST_SUPER_REQ) &&
  (match s.getPledge n.creator with
   | some p => p.totalStorage ≥ s.params.vstorageThreshold
   | none => false) &&
  (match s.staking.delegation n.creator n.validator, s.staking.validator n.validator with
   | some d, some v => v.shares ≠ 0 && !(Dec.quo d.shares v.shares < s.params.shareThreshold)
   | _, _ => false)

def superInv (s : State) : Bool := s.nodes.all (fun n => n.role = 0 || superPredicate s n)

/-! ### C12 timeout progress (state part): an order handed to providers and not fully stored has a pending re-examination -/
def unfinished (s : State) (o : Order) : Bool :=
  o.operation ≠ 3 && (o.status = OrderDataReady ||
    (o.status = OrderCompleted && o.shards.any (fun id => match s.getShard id with
      | some sh => sh.status = ShardWaiting
      | none => false)))

def timeoutPending (s : State) : Bool :=
  s.orders.all (fun o => !unfinished s o ||
    s.timeoutQ.any (fun e => (e.1 : Int) > s.h && e.2.contains o.id))

/-! ### C06 escrow solvency (order and node escrows) -/
def owedOrder (s : State) : Int :=
  sumInt ((s.orders.filter (fun o => o.status ≠ OrderCompleted && o.operation ≠ 3)).map (·.amount))

def owedNode (s : State) : Int :=
  sumInt (s.pledges.map (fun p => p.totalStoragePledged + p.totalShardPledged)) - sumInt (s.debts.map (·.2))

/-- what the node escrow owes by the per-shard records: capacity collateral of every provider plus
    the collateral of every live completed shard, less collateral still owed by providers -/
def owedNodeByShards (s : State) : Int :=
  sumInt (s.pledges.map (·.totalStoragePledged)) +
  sumInt ((s.shards.filter (fun sh => sh.status = ShardCompleted)).map (·.pledge)) - sumInt (s.debts.map (·.2))

/-- what the market escrow owes providers by the chain's own records (in 10^-18 coins): income accrued and
    not yet claimed, income still to be earned on the current paid period of every live completed shard,
    and the price of every prepaid renewal period that has not started -/
def owedMarket (s : State) : Dec :=
  sumInt (s.workers.map (fun w => w.reward + Dec.mulInt w.incomePerSecond (s.h - w.lastRewardAt))) +
  sumInt ((s.shards.filter (fun sh => sh.status = ShardCompleted)).map (fun sh =>
    let price := ((s.getOrder sh.orderId).map (·.unitPrice)).getD 0
    let remaining : Int := (addU64 sh.createdAt sh.duration : Int) - s.h
    Dec.mulInt (Dec.mulInt price sh.size) (if remaining < 0 then 0 else remaining) +
    sumInt (sh.renewInfos.map (fun ri =>
      Dec.mulInt (Dec.mulInt (((s.getOrder ri.orderId).map (·.unitPrice)).getD 0) sh.size) ri.duration))))

def solventMarket (e : Env) (s : State) : Bool := s.bal e.modMarket * precision ≥ owedMarket s

def solventOrder (e : Env) (s : State) : Bool := s.bal e.modOrder ≥ owedOrder s
def solventNodeByShards (e : Env) (s : State) : Bool := s.bal e.modNode ≥ owedNodeByShards s
def solventNode (e : Env) (s : State) : Bool := s.bal e.modNode ≥ owedNode s

/-! ### C11 retention -/
/-- a data model never disappears while a paid, unexpired completed shard of it remains -/
def modelOutlivesShards (s : State) : Bool :=
  s.shards.all (fun sh => sh.status ≠ ShardCompleted || (addU64 sh.createdAt sh.duration : Int) ≤ s.h ||
    (match s.getOrder sh.orderId with
     | some o => (s.getMeta o.dataId).isSome
     | none => true))

/-- a completed shard keeps its provider's capacity, collateral and income: pledge and worker exist -/
def shardBacked (s : State) : Bool :=
  s.shards.all (fun sh => sh.status ≠ ShardCompleted || ((s.getPledge sh.sp).isSome && (s.getWorker sh.sp).isSome))

/-- no completed shard is still around after the end of its paid period (released exactly then) -/
def noOverdueShard (s : State) : Bool :=
  s.shards.all (fun sh => sh.status ≠ ShardCompleted || s.h ≤ (addU64 sh.createdAt sh.duration : Int))

/-- when a model's last shard and order have gone, the model has gone too (no committed model
    without any order left; models whose first order is still in flight are status New) -/
def metaHasOrder (s : State) : Bool :=
  s.metas.all (fun m => m.status ≠ MetaComplete || s.orders.any (fun o => o.dataId = m.dataId))

/-! ### C04 payment conservation at quiescence -/
/-- when no order and no shard is left, the order escrow is empty and the market escrow holds only
    unclaimed provider income plus rounding dust (less than one coin per shard settlement) -/
def escrowsSettled (e : Env) (s : State) : Bool :=
  !(s.orders.isEmpty && s.shards.isEmpty) ||
  (s.bal e.modOrder = 0 &&
   s.bal e.modMarket * precision ≤ sumInt (s.workers.map (·.reward)) + ((s.shardCount + s.getOrderCount : Nat) : Int) * precision)

/-! ### C17 DID registry integrity -/
/-- an account id is bound to at most one DID -/
def didFunctional (d : DidState) : Bool :=
  d.did.all (fun x => (d.did.filter (fun y => y.accountId = x.accountId)).length = 1)

/-- every binding appears in its DID's account list (through an accountDid whose stored
    account id is that account), and every listed accountDid is backed by a binding to that DID -/
def didListsAgree (d : DidState) : Bool :=
  d.did.all (fun x => ((Map.find? d.accountList x.did).getD []).any (fun ad => Map.find? d.accountId ad = some x.accountId)) &&
  d.accountList.all (fun (did, ads) => ads.all (fun ad =>
    match Map.find? d.accountId ad with
    | some acc => (d.did.find? (·.accountId = acc)).map (·.did) = some did
    | none => false))

/-- a sid DID's payment address is one of its currently bound accounts on this chain -/
def sidPayAddrBound (d : DidState) : Bool :=
  d.paymentAddress.all (fun (did, a) => !did.isSid || d.did.any (fun x => x.did = did && x.addr = a && a ≠ 0))

/-- a key DID's payment address is the address linked to it, and an address links to one key DID -/
def keyPayAddrSelf (d : DidState) : Bool :=
  d.paymentAddress.all (fun (did, a) => !did.isKey || Map.find? d.kid a = some did) &&
  d.kid.all (fun (a, did) => Map.find? d.paymentAddress did = some a)

def didInv (d : DidState) : Bool := didFunctional d && didListsAgree d && sidPayAddrBound d && keyPayAddrSelf d

end SaoVerif.Spec

/-! ### Input assumptions of the C17 invariants (evaluated on every operation by the driver: monitor `inputWf`) -/
namespace SaoVerif

/-- what the harness guarantees about a binding message: "did:sid:<root>" is a sid DID -/
def bindingWf (m : BindingMsg) : Bool := !m.didMatchesRoot || m.did.isSid

def opWf : Op → Bool
  | .binding m => bindingWf m
  | _ => true

/-- the chain address an account id stands for: its third component when it is a cosmos account of this chain -/
def accAddr (c : AccId) : Addr := if c.cosmos ∧ c.chainOk then c.addr else 0

/-- the description of an account id that comes with a message is the one the registry recorded for that account id, and
    a cosmos address of this chain is not the empty address -/
def accWfIn (d : DidState) (c : AccId) : Bool :=
  (!(c.cosmos && c.chainOk) || c.addr != 0) && d.did.all (fun x => x.accountId != c.raw || x.addr == accAddr c)

def opWfIn (d : DidState) : Op → Bool
  | .binding m => bindingWf m && accWfIn d m.acc
  | .payaddr m => accWfIn d m.acc
  | .didupdate m => m.removeAcc.all (accWfIn d)
  | _ => true

end SaoVerif

/-! ### Parameter validation (x/node/types/params.go: `Params.Validate` and the per-key validators of the parameter store) -/
namespace SaoVerif

/-- the first validator that refuses, in the order of `Params.Validate`; `none` = accepted. (`apyOk` = the yield parses as a
    decimal; the share threshold is compared as the Go code does, after conversion to a float, with 0.01.) -/
def paramsRefusal (p : NodeParams) : Option String :=
  if p.blockReward < 0 then some "invalid block reward"
  else if !p.apyOk then some "invalid decimal"
  else if p.apy < 0 then some "invalid annual percentage yield"
  else if !(10 < p.halvingPeriod) then some "invalid period"
  else if !(10 < p.adjustmentPeriod) then some "invalid period"
  else if !(0 < p.penaltyBase) then some "invalid penalty base"
  else if !(10 < p.maxPenalty) then some "invalid max penalty"
  else if p.shareThreshold < 10000000000000000 then some "invalid share threshold"
  else if !(0 < p.vstorageThreshold) then some "invalid vstorage threshold"
  else if !(0 < p.offlineTriggerHeight) then some "invalid offline trigger height"
  else none

def paramsValidate (p : NodeParams) : Bool := (paramsRefusal p).isNone

end SaoVerif

/-! ### Input assumption of the C10 registration theorem (evaluated by the driver on every genesis: clause `rankInj`) -/
namespace SaoVerif

/-- the environment ranks every account it ranks below the default range and gives no rank twice -/
def rankInjB (e : Env) : Bool := e.rank.all (fun x => x.2 < 1000000) && decide ((e.rank.map (·.2)).Nodup)

end SaoVerif
