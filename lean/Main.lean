import SaoVerif.Json
import SaoVerif.Spec.Monitors
/-! `saomodel`: reads the harness trace (JSON lines) on stdin, replays each step through the model
    from the *implementation's* previous state, and reports divergences and monitor hits. -/
open Lean SaoVerif

def insSort {α : Type} (lt : α → α → Bool) (l : List α) : List α :=
  l.foldl (fun acc x =>
    let rec ins (l : List α) : List α :=
      match l with
      | [] => [x]
      | y :: t => if lt x y then x :: y :: t else y :: ins t
    ins acc) []

def bytesLt : List Nat → List Nat → Bool
  | [], [] => false
  | [], _ :: _ => true
  | _ :: _, [] => false
  | a :: as, b :: bs => if a < b then true else if a > b then false else bytesLt as bs

def normalize (s : State) : State :=
  { s with
    bank := insSort (fun a b => a.1 < b.1) (s.bank.filter (fun x => x.2 ≠ 0)),
    metas := insSort (fun a b => bytesLt a.dataId b.dataId) s.metas,
    models := insSort (fun a b => bytesLt a.data b.data) s.models,
    pledges := insSort (fun a b => a.creator < b.creator) s.pledges,
    workers := insSort (fun a b => a.sp < b.sp) s.workers,
    debts := insSort (fun a b => a.1 < b.1) s.debts,
    faults := insSort (fun a b => a.key < b.key) s.faults,
    faultIdx := insSort (fun a b => a.provider < b.provider || (a.provider == b.provider && a.shardId < b.shardId)) s.faultIdx,
    fishing := insSort (fun a b => a.1.1 < b.1.1 || (a.1.1 == b.1.1 && a.1.2 < b.1.2)) s.fishing,
    did := { s.did with
      did := insSort (fun a b => bytesLt a.accountId b.accountId) s.did.did,
      accountList := insSort (fun a b => a.1 < b.1) s.did.accountList,
      accountAuth := insSort (fun a b => bytesLt a.1 b.1) s.did.accountAuth,
      accountId := insSort (fun a b => bytesLt a.1 b.1) s.did.accountId,
      paymentAddress := insSort (fun a b => a.1 < b.1) s.did.paymentAddress,
      kid := insSort (fun a b => a.1 < b.1) s.did.kid,
      sidDocument := insSort (fun a b => bytesLt a.1 b.1) s.did.sidDocument,
      sidDocumentVersion := insSort (fun a b => bytesLt a.1 b.1) s.did.sidDocumentVersion,
      pastSeeds := insSort (fun a b => a.1 < b.1) s.did.pastSeeds,
      didBalances := insSort (fun a b => a.1 < b.1) s.did.didBalances } }

def short (s : String) : String := if s.length > 1500 then (s.take 1500).toString ++ "…" else s

def diffField {α : Type} [DecidableEq α] [Repr α] (name : String) (a b : α) : List (String × String × String) :=
  if a = b then [] else [(name, short (toString (repr a)), short (toString (repr b)))]

/-- (field, impl, model) for every differing field -/
def diffState (i m : State) : List (String × String × String) :=
  diffField "bank" i.bank m.bank ++ diffField "supply" i.supply m.supply ++
  diffField "orders" i.orders m.orders ++ diffField "orderCount" i.orderCount m.orderCount ++
  diffField "shards" i.shards m.shards ++ diffField "shardCount" i.shardCount m.shardCount ++
  diffField "metas" i.metas m.metas ++ diffField "models" i.models m.models ++
  diffField "expiredData" i.expiredData m.expiredData ++ diffField "timeoutQ" i.timeoutQ m.timeoutQ ++
  diffField "expiredShardQ" i.expiredShardQ m.expiredShardQ ++
  diffField "nodes" i.nodes m.nodes ++ diffField "nodeRound" i.nodeRound m.nodeRound ++
  diffField "pledges" i.pledges m.pledges ++ diffField "debts" i.debts m.debts ++ diffField "pool" i.pool m.pool ++
  diffField "params" i.params m.params ++
  diffField "faults" i.faults m.faults ++ diffField "faultIdx" i.faultIdx m.faultIdx ++ diffField "fishing" i.fishing m.fishing ++
  diffField "workers" i.workers m.workers ++ diffField "did" i.did m.did ++ diffField "staking" i.staking m.staking ++
  diffField "h" i.h m.h ++ diffField "seed" i.seed m.seed

def resStr : Res → String
  | .ok => "ok" | .err => "err" | .panic => "panic" | .hang => "hang"

structure DAcc where
  env : Env := default
  prev : Option Sys := none
  hist : Nat := 0
  steps : Nat := 0
  compared : Nat := 0
  mismatches : Nat := 0
  monitorHits : Nat := 0
  unmodelled : Nat := 0
  origin : String := "failed-tx"   -- how the residue of the package variable now present came about

/-- the kind of an implementation error: its words without numbers, addresses and ids -/
def errKind (s : String) : String :=
  let ws := (s.splitOn " ").filter (fun w => !w.isEmpty && w.toList.all (fun c => c.isAlpha || c == ':' || c == ',' || c == '\'' || c == '-') && w.length < 20)
  "_".intercalate (ws.take 9)

def processLine (acc : DAcc) (line : String) : IO DAcc := do
  match Json.parse line with
  | .error e => IO.println s!"PARSE-ERROR {e}"; return acc
  | .ok j =>
    if let .ok rej := j.getObjVal? "genesisRejected" then
      -- a genesis the application refused: the model of the parameter validation must refuse it too
      let hist := (j.getObjValAs? Nat "hist").toOption.getD 0
      let ps : Except String NodeParams := getF j "params"
      match ps with
      | .ok p =>
        if paramsValidate p then
          IO.println s!"MISMATCH hist={hist} i=genesis op=genesisparams field=params impl=refused:{rej.compress.take 80} model=accepted"
        IO.println s!"STEP hist={hist} i=genesis op=genesisparams res=err kind=refused"
        return { acc with mismatches := acc.mismatches + (if paramsValidate p then 1 else 0) }
      | .error e => IO.println s!"DECODE-ERROR genesisRejected params: {e}"; return acc
    else if let .ok g := j.getObjVal? "genesis" then
      let env : Except String Env := getF g "env"
      let st : Except String State := getF g "state"
      let gl : Dec := ((g.getObjVal? "state").toOption.bind (fun x => (x.getObjValAs? Int "global").toOption)).getD 0
      match env, st with
      | .ok env, .ok st =>
        let st : Sys := ⟨st, gl⟩
        let hist := (j.getObjValAs? Nat "hist").toOption.getD 0
        for (c, msg) in Monitors.checkState env st.st do
          IO.println s!"MONITOR hist={hist} i=genesis prop={c} {msg}"
        -- the input assumption of the registration theorem (C10Registration): the store order of node records is injective
        if !rankInjB env then
          IO.println s!"MONITOR hist={hist} i=genesis prop=C10 clause=rankInj cls=none"
        -- a genesis the application accepted: the model of the parameter validation accepts its parameters
        if let some why := paramsRefusal st.st.params then
          IO.println s!"MISMATCH hist={hist} i=genesis op=genesisparams field=params impl=accepted model=refused:{why}"
        return { acc with env := env, prev := some st, hist := hist, origin := "failed-tx" }
      | .error e, _ => IO.println s!"DECODE-ERROR genesis env: {e}"; return acc
      | _, .error e => IO.println s!"DECODE-ERROR genesis state: {e}"; return acc
    else
      let i := (j.getObjValAs? Nat "i").toOption.getD 0
      let opj := (j.getObjVal? "op").toOption.getD Json.null
      let k := (opj.getObjValAs? String "k").toOption.getD "?"
      let resS := ((j.getObjVal? "res").toOption.bind (fun r => (r.getObjValAs? String "res").toOption)).getD "?"
      let errS := ((j.getObjVal? "res").toOption.bind (fun r => (r.getObjValAs? String "err").toOption)).getD ""
      let st0 : Except String State := getF j "state"
      let gl : Dec := ((j.getObjVal? "state").toOption.bind (fun x => (x.getObjValAs? Int "global").toOption)).getD 0
      let st : Except String Sys := st0.map (fun x => ⟨x, gl⟩)
      match st, parseOp opj, acc.prev with
      | .error e, _, _ => IO.println s!"DECODE-ERROR hist={acc.hist} i={i} state: {e}"; return { acc with prev := none }
      | _, .error e, _ => IO.println s!"DECODE-ERROR hist={acc.hist} i={i} op: {e}"; return { acc with prev := none }
      | .ok implPost, .ok op, none => let _ := op; return { acc with prev := some implPost }
      | .ok implPost, .ok op, some pre =>
        let acc := { acc with steps := acc.steps + 1 }
        let mut acc := acc
        -- correspondence
        match op with
        | .unmodelled _ => acc := { acc with unmodelled := acc.unmodelled + 1 }
        | _ =>
          let (mres, mpost) := step acc.env pre op
          acc := { acc with compared := acc.compared + 1 }
          let implRes := parseRes resS
          if mres ≠ implRes then
            acc := { acc with mismatches := acc.mismatches + 1 }
            IO.println s!"MISMATCH hist={acc.hist} i={i} op={k} field=res impl={resS} model={resStr mres}"
          let ds := diffState (normalize implPost.st) (normalize mpost.st) ++ diffField "global" implPost.global mpost.global
          for (f, a, b) in ds do
            acc := { acc with mismatches := acc.mismatches + 1 }
            IO.println s!"MISMATCH hist={acc.hist} i={i} op={k} field={f} impl={a} model={b}"
        -- monitors on the implementation's own states
        for (c, msg) in Monitors.checkStep acc.env pre op (parseRes resS) implPost acc.origin do
          acc := { acc with monitorHits := acc.monitorHits + 1 }
          IO.println s!"MONITOR hist={acc.hist} i={i} op={k} prop={c} {msg}"
        IO.println s!"STEP hist={acc.hist} i={i} op={k} res={resS} kind={errKind errS}"
        let o := Monitors.residueOrigin pre op (parseRes resS) implPost
        return { acc with prev := some implPost, origin := if o ≠ "" then o else acc.origin }

partial def loop (h : IO.FS.Stream) (acc : DAcc) : IO DAcc := do
  let line ← h.getLine
  if line.isEmpty then return acc
  if line.trimAscii.isEmpty then loop h acc
  else
    let acc ← processLine acc line
    loop h acc

def main : IO Unit := do
  let acc ← loop (← IO.getStdin) {}
  IO.println s!"SUMMARY steps={acc.steps} compared={acc.compared} unmodelled={acc.unmodelled} mismatches={acc.mismatches} monitorHits={acc.monitorHits}"
