#!/bin/sh
# detect_seed.sh <seed id> <property>... : quick check of each property against a scratch worktree of
# /repo HEAD with the seeded change applied. Writes seeded/<id>/detect-<prop>.log.
id=$1; shift; d=/verif/seeded/$id; wt=/tmp/ds-$id
git -C /repo worktree remove --force $wt 2>/dev/null
git -C /repo worktree add -q --detach $wt HEAD || exit 2
git -C $wt apply $d/patch.diff || { echo "patch does not apply"; git -C /repo worktree remove --force $wt; exit 2; }
for p in "$@"; do
  (cd /verif && VERIF_REPO=$wt python3 scripts/check.py $p ${TIER:-quick} > $d/detect-$p.log 2>&1; echo "[$p exit=$?]" >> $d/detect-$p.log)
  echo "== $id $p: $(grep -E 'VIOLATION|KNOWN-FINDING|exit=' $d/detect-$p.log | cut -c1-200 | tr '\n' ' ')"
done
git -C /repo worktree remove --force $wt
