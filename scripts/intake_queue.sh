#!/bin/sh
# intake_queue.sh <id:prop>... : serialised intake of several seeds (one at a time, under a lock)
for x in "$@"; do id=${x%%:*}; p=${x##*:}; flock /tmp/intake.lock sh /verif/scripts/intake_seed.sh $id $p; done
