#!/usr/bin/env python3
"""cov_report.py <textfmt coverage file> [repo copy root]: list uncovered statement blocks of the modelled
packages (message servers, keepers, blockers, hooks, genesis), skipping query/CLI/generated code."""
import sys,re,collections
cov=sys.argv[1]; root=sys.argv[2] if len(sys.argv)>2 else '/repo'
skip=re.compile(r'(grpc_query|/client/|\.pb\.|/simulation/|/types/|module_simulation|handler\.go|/docs/|/testutil/|/vh/|/cmd/|genesis_test)')
blocks=collections.OrderedDict()
for l in open(cov):
    if l.startswith('mode:'): continue
    m=re.match(r'(.*):(\d+)\.(\d+),(\d+)\.(\d+) (\d+) (\d+)$',l.strip())
    if not m: continue
    f,l1,c1,l2,c2,n,cnt=m.groups()
    if '/x/' not in f or skip.search(f): continue
    k=(f,int(l1),int(l2),int(n))
    blocks[k]=max(blocks.get(k,0),int(cnt))
per=collections.defaultdict(lambda:[0,0,[]])
for (f,l1,l2,n),cnt in blocks.items():
    p=per[f]; p[0]+=n
    if cnt>0: p[1]+=n
    else: p[2].append((l1,l2))
tot=sum(p[0] for p in per.values()); covd=sum(p[1] for p in per.values())
print(f'TOTAL modelled-package statements {covd}/{tot} = {100.0*covd/max(tot,1):.1f}%')
for f in sorted(per):
    p=per[f]
    if p[0]==p[1]: continue
    short=f.split('github.com/SaoNetwork/sao/')[-1]
    print(f'{short}: {p[1]}/{p[0]} uncovered blocks at lines '+' '.join(f'{a}-{b}' if a!=b else str(a) for a,b in sorted(p[2])))
