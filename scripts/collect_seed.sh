#!/bin/sh
# collect_seed.sh <seed id>... : take a sub-agent's deliverables from /tmp/wt-<id>/seed, remove its worktree, confirm the
# seed in a scratch worktree (verify_seed.sh). Detection is run separately (detect_all.sh <ids>, from a snapshot).
for id in "$@"; do
  src=/tmp/wt-$id/seed; d=/verif/seeded/$id; mkdir -p $d
  for f in patch.diff demo_test.go notes.md; do [ -f $src/$f ] && cp $src/$f $d/$f; done
  [ -f $d/patch.diff ] || { echo "no patch for $id"; continue; }
  git -C /repo worktree remove --force /tmp/wt-$id 2>/dev/null
  sh /verif/scripts/verify_seed.sh $d
  grep -E "^ok|^FAIL|^---|build rc" $d/verify.log | head -6 | tr '\n' ' '; echo
done
