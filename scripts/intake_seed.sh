#!/bin/sh
# intake_seed.sh <seed id, e.g. C04-2> <property> : take a sub-agent's deliverables from /tmp/wt-<id>/seed,
# confirm them in a scratch worktree (verify_seed.sh), run the property's quick check against a scratch
# worktree with the change applied (VERIF_REPO; /repo itself is never touched), remove the worktrees.
id=$1; prop=$2; src=/tmp/wt-$id/seed; d=/verif/seeded/$id
mkdir -p $d
for f in patch.diff demo_test.go notes.md; do [ -f $src/$f ] && cp $src/$f $d/$f; done
[ -f $d/patch.diff ] || { echo "no patch for $id"; exit 2; }
git -C /repo worktree remove --force /tmp/wt-$id 2>/dev/null
sh /verif/scripts/verify_seed.sh $d
sh /verif/scripts/detect_seed.sh $id $prop
