#!/bin/sh
# try_seed.sh <seed dir> <property>... : apply a seeded change to /repo, run the quick checks, undo it.
d=$1; shift
cd /repo && git stash list >/dev/null
git -C /repo apply "$d/patch.diff" || { echo "patch does not apply"; exit 2; }
for p in "$@"; do
  (cd /verif && python3 scripts/check.py $p ${TIER:-quick} > /tmp/try_seed.out; rc=$?; cut -c1-300 /tmp/try_seed.out; echo "[$p exit=$rc]")
done
git -C /repo checkout -- . 
git -C /repo status --short | head -3
