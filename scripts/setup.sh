#!/bin/sh
# Build the framework from files on disk only (offline).
set -e
cd "$(dirname "$0")/.."
mkdir -p .cache
export GOFLAGS=-mod=mod GOPROXY=off GOSUMDB=off GOTOOLCHAIN=local
cp /repo/go.sum harness/go.sum
# Tie 1: the facts regenerated from /repo's source are part of the Lean project
(cd harness && go build -o ../.cache/extract.setup ./cmd/extract && ../.cache/extract.setup -repo /repo -out ../lean/SaoVerif/Generated)
(cd lean && lake build SaoVerif saomodel)
(cd harness && go build -tags verif -o /dev/null ./cmd/drive)
echo setup-ok
