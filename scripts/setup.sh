#!/bin/sh
# Build the framework from files on disk only (offline).
set -e
cd "$(dirname "$0")/.."
export GOFLAGS=-mod=mod GOPROXY=off GOSUMDB=off GOTOOLCHAIN=local
(cd lean && lake build SaoVerif saomodel)
cp /repo/go.sum harness/go.sum
(cd harness && go build -tags verif -o /dev/null ./cmd/drive)
echo setup-ok
