#!/bin/sh
# soak.sh "<seeds>" [hists] [steps]: unchanged-tree sweep of every profile (builds first; for `vp run`).
set -e
cd "$(dirname "$0")/.."
sh scripts/setup.sh >/dev/null 2>&1
export GOFLAGS=-mod=mod GOPROXY=off GOSUMDB=off GOTOOLCHAIN=local
(cd harness && go build -tags verif -o ../.cache/drive.soak ./cmd/drive)
sed -i "s#model=/verif/lean#model=$(pwd)/lean#" scripts/sweep.sh
SWEEP_OUT=$(pwd)/.cache/soak sh scripts/sweep.sh $(pwd)/.cache/drive.soak "$1" ${2:-16} ${3:-600} | grep -v -E "cls=(failed-tx|simulated-tx|stale-global|partial-base|orphan-order|unbound-message|no-genesis-field) *$" 
echo soak-done
