#!/usr/bin/env python3
"""check.py <property> <quick|thorough>  — DESIGN §2.2 / §6.

Builds the harness against /repo's working tree, rebuilds the Lean project (all proofs and the
generated obligations), runs the correspondence + monitor runs in the property's footprint and
decides: exit 0 | 'VIOLATION property=<id> replay=<path>' exit 1.  Writes evidence/<id>.json.
"""
import hashlib, json, os, re, subprocess, sys, time, glob, shutil

VERIF = os.path.dirname(os.path.dirname(os.path.abspath(__file__)))
REPO = os.environ.get("VERIF_REPO", "/repo")
CACHE = os.path.join(VERIF, ".cache")
LEAN = os.path.join(VERIF, "lean")
TMP = ".tmp%d" % os.getpid()   # per-process scratch names: concurrent checks share the per-tree cache
GOENV = dict(os.environ, GOFLAGS="-mod=mod", GOPROXY="off", GOSUMDB="off", GOTOOLCHAIN="local")

def sh(cmd, cwd=None, env=None, timeout=None):
    p = subprocess.run(cmd, cwd=cwd, env=env, shell=isinstance(cmd, str), stdout=subprocess.PIPE, stderr=subprocess.STDOUT, text=True, timeout=timeout)
    return p.returncode, p.stdout

def treehash():
    h = hashlib.sha256()
    _, head = sh("git rev-parse HEAD", cwd=REPO); h.update(head.encode())
    _, diff = sh("git diff HEAD", cwd=REPO); h.update(diff.encode())
    _, unt = sh("git ls-files --others --exclude-standard", cwd=REPO)
    for f in sorted(unt.split()):
        p = os.path.join(REPO, f)
        if os.path.isfile(p):
            h.update(f.encode()); h.update(open(p, "rb").read())
    # the harness and model sources are part of what is built
    for root in ("harness", "lean/SaoVerif", "lean/Main.lean", "lean/Audit.lean", "scripts"):
        p = os.path.join(VERIF, root)
        files = [p] if os.path.isfile(p) else sorted(glob.glob(p + "/**/*", recursive=True))
        for f in files:
            if os.path.isfile(f) and "/Generated/" not in f:
                h.update(f.encode()); h.update(open(f, "rb").read())
    return h.hexdigest()[:16]

class Ctx:
    pass

def build(ctx):
    """returns list of (kind, message) build failures"""
    fails = []
    d = ctx.dir
    os.makedirs(d, exist_ok=True)
    # keep the most recent tree caches; never remove one that was used within the last two hours
    # (several checks, e.g. against scratch worktrees via VERIF_REPO, may run at the same time)
    others = sorted([x for x in glob.glob(os.path.join(CACHE, "*")) if os.path.isdir(x) and x != d], key=os.path.getmtime)
    for o in others[:-3]:
        if time.time() - os.path.getmtime(o) > 7200:
            shutil.rmtree(o, ignore_errors=True)
    os.utime(d, None)
    drive = os.path.join(d, "drive")
    if not os.path.exists(drive):
        hz = os.path.join(VERIF, "harness")
        if os.path.realpath(REPO) != "/repo":
            # a tree other than /repo (VERIF_REPO): build a private copy of the harness module whose
            # replace directive points at that tree
            hz2 = os.path.join(d, "harness")
            shutil.rmtree(hz2, ignore_errors=True)
            shutil.copytree(hz, hz2)
            gm = open(os.path.join(hz2, "go.mod")).read().replace("github.com/SaoNetwork/sao => /repo", "github.com/SaoNetwork/sao => " + os.path.realpath(REPO))
            open(os.path.join(hz2, "go.mod"), "w").write(gm)
            hz = hz2
        shutil.copy(os.path.join(REPO, "go.sum"), os.path.join(hz, "go.sum"))
        rc, out = sh(["go", "build", "-tags", "verif", "-o", drive + ".tmp%d" % os.getpid(), "./cmd/drive"], cwd=hz, env=GOENV)
        if rc != 0:
            fails.append(("harness-build", out[-3000:]))
        else:
            os.replace(drive + ".tmp%d" % os.getpid(), drive)
    ctx.drive = drive
    # the Lean project: /verif/lean for /repo itself; a private copy (sources and build products) for a
    # scratch tree, because the generated facts differ per tree
    lean = LEAN
    if os.path.realpath(REPO) != "/repo":
        lean = os.path.join(d, "lean")
        if not os.path.isdir(lean):
            sh(["cp", "-a", LEAN, lean + ".tmp%d" % os.getpid()])
            os.replace(lean + ".tmp%d" % os.getpid(), lean)
    ctx.lean = lean
    # Tie 1: regenerate the static facts (Generated/Facts.lean) from the tree under check
    stamp = os.path.join(d, "extract.done")
    if not os.path.exists(stamp):
        hz = os.path.join(d, "harness") if os.path.isdir(os.path.join(d, "harness")) else os.path.join(VERIF, "harness")
        extract = os.path.join(d, "extract")
        rc, out = sh(["go", "build", "-o", extract, "./cmd/extract"], cwd=hz, env=GOENV)
        if rc != 0:
            fails.append(("extract-build", out[-3000:]))
        else:
            rc, out = sh([extract, "-repo", REPO, "-out", os.path.join(lean, "SaoVerif/Generated")], env=GOENV)
            if rc != 0:
                fails.append(("extract-run", out[-3000:]))
            else:
                open(stamp, "w").write("ok")
    # Lean: proofs, obligations, driver
    stamp = os.path.join(d, "lake.done")
    logp = os.path.join(d, "lake.log")
    if not os.path.exists(stamp):
        if ctx.tier == "thorough":
            sh(["lake", "clean"], cwd=lean)
        rc, out = sh(["lake", "build", "SaoVerif", "saomodel"], cwd=lean)
        open(logp, "w").write(out)
        if rc == 0:
            open(stamp, "w").write("ok")
    out = open(logp).read() if os.path.exists(logp) else ""
    ctx.lake_log = out
    if not os.path.exists(stamp):
        fails.append(("lake-build", out[-6000:]))
    ctx.model = os.path.join(lean, ".lake/build/bin/saomodel")
    return fails

def audit(ctx):
    """axiom audit + forbidden-token grep; returns (theorem->axioms dict, problems list)"""
    d = ctx.dir
    outp = os.path.join(d, "audit.json")
    if os.path.exists(outp):
        return json.load(open(outp))
    problems = []
    pat = re.compile(r"sorry|admit|^axiom |native_decide|bv_decide|implemented_by|unsafe |maxHeartbeats 0")
    L = ctx.lean
    for f in glob.glob(L + "/SaoVerif/**/*.lean", recursive=True) + [L + "/Main.lean"]:
        incomment = False
        for n, line in enumerate(open(f), 1):
            s = line
            if "/-" in s and "-/" not in s: incomment = True
            if incomment:
                if "-/" in s: incomment = False
                continue
            code = s.split("--")[0]
            if "/-" in code and "-/" in code:
                code = re.sub(r"/-.*?-/", "", code)
            if pat.search(code):
                problems.append(f"{os.path.relpath(f, VERIF)}:{n}: {line.strip()}")
    thms = {}
    rc, out = sh([sys.executable, os.path.join(VERIF, "scripts/gen_audit.py"), L], cwd=VERIF)
    if rc != 0:
        problems.append("gen_audit failed: " + out[-500:])
    if os.path.exists(os.path.join(L, "Audit.lean")):
        rc, out = sh(["lake", "env", "lean", "Audit.lean"], cwd=L)
        cur = None
        for line in out.splitlines():
            m = re.match(r"'([^']+)' depends on axioms: \[(.*)\]", line)
            m2 = re.match(r"'([^']+)' does not depend on any axioms", line)
            if m:
                thms[m.group(1)] = [a.strip() for a in m.group(2).split(",")]
            elif m2:
                thms[m2.group(1)] = []
        if rc != 0:
            problems.append("Audit.lean failed: " + out[-1500:])
        allowed = {"propext", "Classical.choice", "Quot.sound"}
        for t, ax in thms.items():
            extra = [a for a in ax if a not in allowed]
            if extra:
                problems.append(f"theorem {t} depends on non-standard axioms {extra}")
    res = {"theorems": thms, "problems": problems}
    json.dump(res, open(outp, "w"))
    return res

def run_traces(ctx, profile, seed, hists, steps):
    d = os.path.join(ctx.dir, "traces")
    os.makedirs(d, exist_ok=True)
    base = os.path.join(d, f"{profile}-{seed}-{hists}x{steps}")
    tr, mo = base + ".jsonl", base + ".out"
    if not os.path.exists(mo):
        rc, out = sh([ctx.drive, "-seed", str(seed), "-hists", str(hists), "-steps", str(steps), "-profile", profile, "-j", "16", "-out", tr + TMP], timeout=3600)
        os.replace(tr + TMP, tr)
        with open(tr) as fin, open(mo + TMP, "w") as fout:
            p = subprocess.run([ctx.model], stdin=fin, stdout=fout, stderr=subprocess.STDOUT)
        os.replace(mo + TMP, mo)
    return tr, mo

LINE = re.compile(r"^(MISMATCH|MONITOR|STEP|SUMMARY|DECODE-ERROR|PARSE-ERROR)\b(.*)$")
def parse_kv(rest):
    kv = {}
    for m in re.finditer(r"(\w+)=((?:(?! \w+=).)*)", rest):
        kv[m.group(1)] = m.group(2).strip()
    return kv

def load_known():
    kf = []
    p = os.path.join(VERIF, "known-findings.txt")
    if os.path.exists(p):
        for line in open(p):
            line = line.strip()
            if line.startswith("finding:"):
                kv = parse_kv(line[len("finding:"):])
                kv["_line"] = line
                kf.append(kv)
    return kf

def extract_history(trace, hist, upto):
    """raw ops of history `hist` up to and including step `upto`"""
    ops, cur, prof = [], None, "main"
    with open(trace) as f:
        for line in f:
            if '"genesis"' in line[:12]:
                j = json.loads(line); cur = j.get("hist"); prof = j.get("profile", "main"); 
                if cur == hist: myprof = prof
                continue
            if cur != hist: continue
            j = json.loads(line)
            if "raw" in j:
                ops.append(j["raw"])
                if j.get("i") == upto: break
    return prof if 'myprof' not in dir() else myprof, ops

def main():
    prop, tier = sys.argv[1], (sys.argv[2] if len(sys.argv) > 2 else os.environ.get("VERIF_TIER", "quick"))
    seed = int(os.environ.get("VERIF_SEED", "1"))
    t0 = time.time()
    fp_all = json.load(open(os.path.join(VERIF, "scripts/footprints.json")))
    fp = fp_all["properties"].get(prop)
    if fp is None:
        print(f"ERROR: no footprint for {prop}"); sys.exit(2)
    fields = set(sum((fp_all["groups"][g] for g in fp["groups"]), []))
    ops = set(fp["ops"])
    ctx = Ctx(); ctx.tier = tier; ctx.hash = treehash(); ctx.dir = os.path.join(CACHE, ctx.hash)
    # runs against a scratch tree (VERIF_REPO) keep their replays and evidence in that tree's cache
    # directory: evidence/ and replays/ only ever describe /repo itself
    OUT = VERIF if os.path.realpath(REPO) == "/repo" else ctx.dir
    os.makedirs(os.path.join(OUT, "replays"), exist_ok=True)
    violations, notes = [], []
    fails = build(ctx)
    au = {"theorems": {}, "problems": []}
    broken = []
    for kind, msg in fails:
        # a failing Lean declaration is attributed by file: Properties/Cxx.lean, Obligations for mapped properties
        if kind == "lake-build":
            mine = re.findall(r"error: (SaoVerif/[\w/]+\.lean):(\d+)", msg)
            files = set(f for f, _ in mine)
            # relevant: the property's own files, what they import (transitively) and everything outside Properties/
            mineFiles = set(os.path.relpath(x, ctx.lean) for x in glob.glob(os.path.join(ctx.lean, f"SaoVerif/Properties/{prop}*.lean")))
            todo = list(mineFiles)
            while todo:
                cur = todo.pop()
                try:
                    for imp in re.findall(r"^import (SaoVerif\.[\w.]+)", open(os.path.join(ctx.lean, cur)).read(), flags=re.M):
                        fimp = imp.replace(".", "/") + ".lean"
                        if fimp not in mineFiles:
                            mineFiles.add(fimp); todo.append(fimp)
                except Exception:
                    pass
            # (a per-source-file skeleton module concerns the properties whose skeleton theorem imports it, nobody else)
            rel = [f for f in files if f in mineFiles or ("Properties/" not in f and "SaoVerif/Skeleton/" not in f)]
            if rel or not files:
                # name the declarations that no longer check
                decls = []
                for f, ln in mine:
                    if f not in rel: continue
                    try:
                        lines = open(os.path.join(ctx.lean, f)).read().split("\n")
                        for k in range(min(int(ln), len(lines)) - 1, -1, -1):
                            m = re.match(r"\s*(?:private\s+)?(theorem|lemma|def|example|instance)\s+([\w'.]+)?", lines[k])
                            if m:
                                decls.append(f"{f}:{m.group(1)} {m.group(2) or ''}".strip()); break
                    except Exception:
                        pass
                broken.append(f"lake build failed in {sorted(rel) or sorted(files)}; declarations that no longer check: {sorted(set(decls))}")
        else:
            broken.append(f"{kind}: {msg[-400:]}")
    if not fails:
        au = audit(ctx)
        for p in au["problems"]:
            broken.append("audit: " + p)
    my_thms = {t: a for t, a in au["theorems"].items() if re.search(rf"\b{prop}_", t) or t.startswith(f"SaoVerif.{prop}.")}
    rechecked = None
    if not fails and tier == "thorough" and os.path.exists(os.path.join(ctx.lean, f"SaoVerif/Properties/{prop}.lean")):
        # independent re-check of the compiled property module (and its imports) by leanchecker
        stamp = os.path.join(ctx.dir, f"leanchecker-{prop}.txt")
        if not os.path.exists(stamp):
            rc, out = sh(["lake", "env", "leanchecker", f"SaoVerif.Properties.{prop}"], cwd=ctx.lean, timeout=1800)
            open(stamp, "w").write(f"{rc}\n{out[-2000:]}")
        txt = open(stamp).read()
        rechecked = txt.split("\n", 1)[0] == "0"
        if not rechecked:
            broken.append("audit: leanchecker rejected SaoVerif.Properties." + prop + ": " + txt[-400:])
    if not fails and not my_thms:
        broken.append(f"audit: no theorem named {prop}_* was checked (lean/SaoVerif/Properties/{prop}.lean missing or not imported)")
    # runs
    known = [k for k in load_known() if k.get("property") == prop]
    hits, mism, steps_total, compared, opcount, rescount, errkinds = [], [], 0, 0, {}, {}, {}
    runs = []
    samples = []
    if not any(k in ("harness-build",) for k, _ in fails) and os.path.exists(ctx.model if hasattr(ctx, "model") else "/nonexistent"):
        hists, steps = (16, 400) if tier == "quick" else (64, 1200)
        outputs = []
        # corpus first: committed replays of known and fixed findings, minimised past failures
        corpus = sorted(glob.glob(os.path.join(VERIF, "findings", "*.json")) + glob.glob(os.path.join(VERIF, "harness/corpus", "*.json")) +
                        glob.glob(os.path.join(VERIF, "harness/corpus/seeds", "*.json")))
        cdir = os.path.join(ctx.dir, "corpus"); os.makedirs(cdir, exist_ok=True)
        for c in corpus:
            try:
                meta = json.load(open(c))
            except Exception:
                continue
            if prop not in meta.get("properties", [prop]):
                continue
            tr = os.path.join(cdir, os.path.basename(c) + "l"); mo = tr + ".out"
            if not os.path.exists(mo):
                with open(tr + TMP, "w") as fout:
                    subprocess.run([ctx.drive, "-replay", c], stdout=fout, stderr=subprocess.DEVNULL, timeout=600)
                os.replace(tr + TMP, tr)
                with open(tr) as fin, open(mo + TMP, "w") as fout:
                    subprocess.run([ctx.model], stdin=fin, stdout=fout, stderr=subprocess.STDOUT)
                os.replace(mo + TMP, mo)
            runs.append({"corpus": os.path.relpath(c, VERIF)})
            outputs.append((tr, mo))
        for profile in fp["profiles"]:
            tr, mo = run_traces(ctx, profile, seed, hists, steps)
            runs.append({"profile": profile, "seed": seed, "histories": hists, "steps_per_history": steps})
            outputs.append((tr, mo))
        if fp.get("twin"):
            # crash-restart twin: replay every trace with a restart after every operation and compare
            for tr, mo in list(outputs):
                tw = tr + ".twin"
                if not os.path.exists(tw):
                    with open(tw + TMP, "w") as fout:
                        subprocess.run([ctx.drive, "-twin", tr], stdout=fout, stderr=subprocess.DEVNULL, timeout=3600)
                    os.replace(tw + TMP, tw)
                runs.append({"twin_of": os.path.basename(tr)})
                outputs.append((tr, tw))
        for tr, mo in outputs:
            for line in open(mo):
                m = LINE.match(line)
                if not m: continue
                kind, rest = m.group(1), m.group(2)
                kv = parse_kv(rest)
                if kind == "STEP":
                    steps_total += 1
                    opcount[kv.get("op", "?")] = opcount.get(kv.get("op", "?"), 0) + 1
                    rescount[kv.get("op", "?") + ":" + kv.get("res", "?")] = rescount.get(kv.get("op", "?") + ":" + kv.get("res", "?"), 0) + 1
                    if kv.get("res") != "ok":
                        ek = kv.get("op", "?") + ":" + kv.get("res", "?") + ":" + kv.get("kind", "")
                        errkinds[ek] = errkinds.get(ek, 0) + 1
                    if len(samples) < 3 and kv.get("op") not in ("advance", "begin", "end"):
                        samples.append({"trace": os.path.basename(tr), "hist": kv.get("hist"), "i": kv.get("i"), "op": kv.get("op"), "res": kv.get("res")})
                elif kind == "MISMATCH":
                    if (("*" in ops) or kv.get("op") in ops) and kv.get("field") in fields:
                        mism.append((tr, kv, line.strip()[:600]))
                elif kind == "MONITOR":
                    if kv.get("prop") == prop or (kv.get("prop") == "C03" and prop == "C01" and kv.get("clause") in ("twinDivergence", "globalResidue")):
                        hits.append((tr, kv, line.strip()[:600]))
                elif kind in ("DECODE-ERROR", "PARSE-ERROR"):
                    broken.append(f"model driver could not decode the harness trace: {line.strip()[:300]}")
                elif kind == "SUMMARY":
                    compared += int(kv.get("compared", 0))
    # decide
    def write_replay(name, tr, kv, extra):
        path = os.path.join(OUT, "replays", name)
        prof, rops = extract_history(tr, int(kv.get("hist", 0)), int(kv["i"]) if kv.get("i", "").isdigit() else -1) if tr else ("main", [])
        json.dump(dict(extra, property=prop, profile=prof, hist=int(kv.get("hist", 0)) if kv else 0, ops=rops,
                       replay_cmd=f"{ctx.drive} -replay <this file> | {ctx.model}"), open(path, "w"), indent=1)
        return path
    reproduced = {}
    unexplained = []
    tainted = {}   # history -> step of the first known-finding hit; later hits in that history are consequences
    ntainted = 0
    def step_of(kv):
        return int(kv["i"]) if kv.get("i", "").isdigit() else -1
    for tr, kv, line in sorted(hits, key=lambda h: (h[0], int(h[1].get("hist", 0)), step_of(h[1]))):
        hkey = (os.path.basename(tr).split(".")[0], kv.get("hist"))
        k = next((k for k in known if k.get("clause") == kv.get("clause") and k.get("cls", kv.get("cls")) == kv.get("cls")), None)
        if k:
            reproduced.setdefault(k["id"], (k, line))
            # a residue of the package variable alone changes no committed state: only a hit
            # that shows committed state affected makes later hits of that history consequences
            if kv.get("clause") != "globalResidue":
                tainted.setdefault(hkey, step_of(kv))
        elif hkey in tainted and step_of(kv) >= tainted[hkey]:
            ntainted += 1
        else:
            unexplained.append((tr, kv, line))
    def shrunk(path):
        """delta-debug the replay to a smaller history on which the same monitor clause fires"""
        if os.environ.get("VERIF_NO_SHRINK"): return path
        try:
            subprocess.run([sys.executable, os.path.join(VERIF, "scripts/replay.py"), path, "--shrink", "60" if tier == "quick" else "300"],
                           stdout=subprocess.DEVNULL, stderr=subprocess.DEVNULL, timeout=1200)
        except Exception:
            return path
        mp = re.sub(r"\.json$", "", path) + ".min.json"
        return mp if os.path.exists(mp) else path
    exit_code = 0
    for kid, (k, line) in reproduced.items():
        print("KNOWN-FINDING: " + k["_line"][len("finding:"):].strip())
    if unexplained:
        tr, kv, line = unexplained[0]
        path = shrunk(write_replay(f"{prop}-{kv.get('hist')}-{kv.get('i')}.json", tr, kv, {"kind": "monitor", "monitor": line, "count": len(unexplained)}))
        print(f"VIOLATION property={prop} replay={path}")
        exit_code = 1
    elif mism or broken:
        # broken proof/obligation/correspondence: the monitors already ran on every implementation
        # state of these runs; widen the search before giving up on a concrete failing input
        found = None
        search = []
        if mism and os.path.exists(getattr(ctx, "drive", "/nonexistent")):
            # the correspondence broke but no monitor fired on these runs: look for a concrete
            # failing history with other seeds and longer histories of the same profiles
            for rnd, (eh, es) in enumerate([(24, 500), (48, 900)] if tier == "quick" else [(96, 1500)]):
                for profile in fp["profiles"]:
                    try:
                        tr2, mo2 = run_traces(ctx, profile, seed + 7919 * (rnd + 1), eh, es)
                    except Exception as ex:
                        search.append({"profile": profile, "error": str(ex)[:200]}); continue
                    search.append({"profile": profile, "seed": seed + 7919 * (rnd + 1), "histories": eh, "steps_per_history": es})
                    seen_known = {}
                    for line in open(mo2):
                        m = LINE.match(line)
                        if not m or m.group(1) != "MONITOR": continue
                        kv2 = parse_kv(m.group(2))
                        if kv2.get("prop") != prop: continue
                        hk = kv2.get("hist")
                        if any(k.get("clause") == kv2.get("clause") and k.get("cls", kv2.get("cls")) == kv2.get("cls") for k in known):
                            seen_known.setdefault(hk, True); continue
                        if hk in seen_known: continue
                        found = (tr2, kv2, line.strip()[:600]); break
                    if found: break
                if found: break
        if found:
            tr2, kv2, line2 = found
            path = write_replay(f"{prop}-{kv2.get('hist')}-{kv2.get('i')}.json", tr2, kv2,
                                {"kind": "monitor-after-broken-correspondence", "monitor": line2, "broken": broken[:10],
                                 "mismatches": [l for _, _, l in mism[:10]], "search": search})
            path = shrunk(path)
            print(f"VIOLATION property={prop} replay={path}")
            exit_code = 1
        what = {"kind": "broken", "broken": broken[:10], "mismatches": [l for _, _, l in mism[:10]], "search_for_failing_input": search}
        if mism:
            tr, kv, line = mism[0]
            path = write_replay(f"{prop}-broken.json", tr, kv, what)
        else:
            path = os.path.join(OUT, "replays", f"{prop}-broken.json")
            json.dump(dict(what, property=prop), open(path, "w"), indent=1)
        if not found:
            print(f"VIOLATION property={prop} replay={path} no-failing-input-found")
            exit_code = 1
    # evidence
    obligations = len(my_thms) + len(opcount)
    ev = {
        "property_id": prop, "tier": tier, "seed": seed, "level": "proof",
        "coverage": {
            "obligations": max(1, len(my_thms)) if not broken else max(1, len(my_thms)),
            "discharged": max(1, len(my_thms)) if not any("lake" in b or "audit" in b for b in broken) else 0,
            "checker_cmd": "lake build SaoVerif saomodel && lake env lean Audit.lean (#print axioms) ; drive | saomodel",
            "trusted_base": ["Lean 4.33.0 kernel", "axioms: propext, Classical.choice, Quot.sound only (audited per theorem below)",
                             "harness/cmd/drive (Mode K atomicity emulation, state dump = abstraction function)",
                             "Lean compiler for saomodel (correspondence/monitors only)"],
            "theorems": my_thms, "leanchecker_replayed_module": rechecked,
            "correspondence": {"runs": runs, "steps": steps_total, "compared_steps": compared, "footprint_ops": sorted(ops), "footprint_fields": sorted(fields),
                               "mismatches_in_footprint": len(mism), "op_histogram": opcount, "op_result_histogram": rescount, "error_kinds_hit": dict(sorted(errkinds.items()))},
            "traces_validated_against_impl": compared,
            "monitor_hits": len(hits), "hits_after_known_finding_in_same_history": ntainted, "known_findings_reproduced": sorted(reproduced.keys()),
            "evaluations": steps_total, "samples": samples or [{"note": "no runs"}],
            "tree_hash": ctx.hash,
        },
        "assumptions": ["model-to-code tie is the differential correspondence recorded above; crypto, IAVL, gas, bank/staking internals are modelled not verified (DESIGN §8)"],
        "wall_s": round(time.time() - t0, 2), "violations": 1 if exit_code else 0,
    }
    os.makedirs(os.path.join(OUT, "evidence"), exist_ok=True)
    json.dump(ev, open(os.path.join(OUT, "evidence", f"{prop}.json"), "w"), indent=1)
    sys.exit(exit_code)

if __name__ == "__main__":
    main()
