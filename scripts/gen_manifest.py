#!/usr/bin/env python3
"""Regenerates MANIFEST.json from the table below (kept in one place so it stays valid)."""
import json, os
V = os.path.dirname(os.path.dirname(os.path.abspath(__file__)))
props = [json.loads(l) for l in open(os.path.join(V, "properties.jsonl"))]
claimed = json.load(open(os.path.join(V, "scripts/claims.json")))
checks, na = [], []
for p in props:
    pid = p["id"]
    c = claimed.get(pid)
    if not c or not c.get("claimed"):
        na.append({"property_id": pid, "reason": (c or {}).get("reason", "no Lean theorem with a checked tie to the code has been built for this property yet; not claimed rather than decided by another technique")})
        continue
    checks.append({
        "property_id": pid,
        "quick_cmd": f"python3 scripts/check.py {pid} quick",
        "thorough_cmd": f"python3 scripts/check.py {pid} thorough",
        "evidence_file": f"/verif/evidence/{pid}.json",
        "replay_cmd_template": "python3 scripts/replay.py {path}",
        "engine": "lean4-model+correspondence",
        "level_claimed": {"category": "proof", "text": c["text"], "design_ref": c.get("design_ref", "DESIGN.md §7 " + pid)},
        "level_note": c["note"],
        "technique": c.get("technique", "Lean 4 theorem over a hand-written executable model, tied to the code by a step-wise differential correspondence check and run-time monitors that evaluate the theorem's predicates on implementation states"),
    })
m = {
    "version": 1,
    "setup_cmd": "sh scripts/setup.sh",
    "hooks": {"guard": "verif", "enable": "go build -tags verif (harness/cmd/drive is built against /repo with the tag on)",
              "baseline_off_cmd": "cd /repo && go test -vet=off -count=1 ./x/...  # guard off: x/node/keeper/verif_hooks.go (VerifSharesBeforeModified, VerifResetGlobals) is not compiled",
              "source_commits": ["6317710", "e3811ae"], "add_only": True},
    "engines": [{"name": "lean4-model+correspondence", "path": "/verif/lean + /verif/harness", "serves_properties": [c["property_id"] for c in checks],
                 "kind_free_text": "Lean 4 model + theorems (lake build, #print axioms audit); Go harness drives the real keepers, compiled Lean driver replays each step and evaluates monitors"}],
    "checks": checks,
    "not_applicable": na,
    "notes": "See DESIGN.md. known-findings.txt lists genuine defects (fixed: / finding:). Every check rebuilds the harness against /repo's working tree (cache keyed by a hash of HEAD+diff+untracked files).",
}
json.dump(m, open(os.path.join(V, "MANIFEST.json"), "w"), indent=1)
print("claimed", [c["property_id"] for c in checks])
