#!/bin/sh
# seeds_sweep.sh <seeds...>: the quick check of every property on the unchanged tree under other VERIF_SEED values (false-alarm
# hunting; used with `vp run`). Prints one line per (seed, property).
cd "$(dirname "$0")/.."; mkdir -p .cache
for sd in "$@"; do for i in 01 02 03 04 05 06 07 08 09 10 11 12 13 14 15 16 17 18 19 20; do
  VERIF_SEED=$sd python3 scripts/check.py C$i quick > .cache/sweep_${sd}_C$i.log 2>&1
  echo "seed=$sd C$i rc=$? viol=$(grep -c VIOLATION .cache/sweep_${sd}_C$i.log) $(grep VIOLATION .cache/sweep_${sd}_C$i.log | head -1 | cut -c1-150)"
done; done
