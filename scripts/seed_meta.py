#!/usr/bin/env python3
"""seed_meta.py <seed id>... : (re)write seeded/<id>/meta.json from the sub-agent's notes.md, the patch, verify.log
(scripts/verify_seed.sh) and the detect-<prop>.log files (scripts/detect_seed.sh)."""
import json, os, re, sys, glob
V = os.path.dirname(os.path.dirname(os.path.abspath(__file__)))
props = {json.loads(l)["id"]: json.loads(l) for l in open(os.path.join(V, "properties.jsonl"))}
for sid in sys.argv[1:]:
    d = os.path.join(V, "seeded", sid); prop = sid.split("-")[0]
    notes = open(os.path.join(d, "notes.md")).read() if os.path.exists(os.path.join(d, "notes.md")) else ""
    patch = open(os.path.join(d, "patch.diff")).read()
    files = sorted(set(re.findall(r"^\+\+\+ b/(\S+)", patch, flags=re.M)))
    title = next((l.lstrip("# ").strip() for l in notes.splitlines() if l.startswith("#")), sid)
    mc = re.search(r"^#+[^\n]*change[^\n]*\n(.*?)(?=^#+ |\Z)", notes, flags=re.S | re.M | re.I)
    change = re.sub(r"\s+", " ", mc.group(1)).strip()[:500] if mc else ""
    m = re.search(r"^#+[^\n]*(needs|manifest)[^\n]*\n(.*?)(?=^#+ |\Z)", notes, flags=re.S | re.M | re.I)
    needs = re.sub(r"\s+", " ", m.group(2)).strip()[:1500] if m else ""
    vlog = open(os.path.join(d, "verify.log")).read() if os.path.exists(os.path.join(d, "verify.log")) else ""
    def after(tag):
        mm = re.search(re.escape(tag) + r"\n(.*?)(?=\n== |\Z)", vlog, flags=re.S)
        return (mm.group(1).strip().splitlines() or [""])[-1][:200] if mm else ""
    base = (re.search(r"== base: (\w+)", vlog) or [None, ""])[1]
    det = {}
    for f in sorted(glob.glob(os.path.join(d, "detect-*.log"))):
        p = os.path.basename(f)[7:-4]; t = open(f).read()
        ex = re.search(r"\[%s exit=(\d+)\]" % p, t); vio = re.search(r"VIOLATION property=\S+ replay=(\S+)( no-failing-input-found)?", t)
        det[p] = {"check": f"python3 scripts/check.py {p} quick (against a scratch worktree with the change applied, VERIF_REPO)", "exit": int(ex.group(1)) if ex else None,
                  "violation_line": vio.group(0).replace(V + "/", "") if vio else None,
                  "concrete_failing_input": bool(vio) and not vio.group(2)}
        rp = os.path.join(d, f"replay-{p}.json")
        if vio and (os.path.exists(rp) or os.path.exists(vio.group(1))):
            try:
                r = json.load(open(rp if os.path.exists(rp) else vio.group(1)))
                det[p]["replay_kind"] = r.get("kind"); det[p]["monitor"] = (r.get("monitor") or "")[:300]; det[p]["profile"] = r.get("profile")
                if r.get("broken"): det[p]["broken"] = r["broken"][:3]
            except Exception: pass
    meta = {"id": sid, "property": prop, "property_title": props[prop]["title"], "summary": title, "change": change, "files_changed": files,
            "needs_to_manifest": needs,
            "origin": "written by a fresh sub-agent that was given only the text of the property and a scratch git worktree of /repo under /tmp (nothing from /verif)" if sid.endswith("-1") else "written by a fresh sub-agent that was given only the text of the property, the one-line summaries of the changes already taken for it, an in-process test written for a different property as scaffolding, and a scratch git worktree of /repo under /tmp (nothing from /verif's machinery)",
            "what_i_ran": {"confirm": f"sh scripts/verify_seed.sh /verif/seeded/{sid} (scratch worktree of /repo HEAD, removed afterwards): demonstration without / with the change, go build ./app/... ./x/... ./cmd/..., the four types test packages",
                           "base_commit": base, "demo_without_change": after("== demo WITHOUT the change"), "demo_with_change": after("== demo WITH the change"),
                           "build": after("== build"), "detect": f"sh scripts/detect_seed.sh {sid} {prop}"},
            "detected_by": det}
    json.dump(meta, open(os.path.join(d, "meta.json"), "w"), indent=1)
    print(sid, {p: (v["exit"], v["concrete_failing_input"]) for p, v in det.items()})
