#!/usr/bin/env python3
"""replay.py <replay.json> [--shrink [seconds]]
Re-runs the history of a replay file (findings/*.json, replays/*.json, harness/corpus/*.json) against
/repo's current working tree through the same pipeline as the checks: the real keepers execute the ops
(drive -replay), the Lean model re-computes every step and the monitors are evaluated (saomodel).
Prints the MISMATCH / MONITOR lines and exits 1 if the file's property is violated again (a monitor
hit for that property, or — for a replay of kind "broken" — a mismatch), 0 otherwise.
--shrink: delta-debug the op list to a smaller history on which the same monitor clause still fires
and write it next to the input as <name>.min.json."""
import json, os, re, subprocess, sys, time, tempfile
sys.path.insert(0, os.path.dirname(os.path.abspath(__file__)))
import check

def run(ctx, path):
    with tempfile.TemporaryDirectory(dir=ctx.dir) as td:
        tr = os.path.join(td, "t.jsonl")
        with open(tr, "w") as fout:
            subprocess.run([ctx.drive, "-replay", path], stdout=fout, stderr=subprocess.DEVNULL, timeout=900)
        with open(tr) as fin:
            p = subprocess.run([ctx.model], stdin=fin, stdout=subprocess.PIPE, stderr=subprocess.STDOUT, text=True)
        return p.stdout

def fires(out, prop, clause):
    for line in out.splitlines():
        m = check.LINE.match(line)
        if m and m.group(1) == "MONITOR":
            kv = check.parse_kv(m.group(2))
            if kv.get("prop") == prop and (clause is None or kv.get("clause") == clause):
                return True
    return False

BLOCK_OPS = ("advance", "begin", "end")

def shrink(ctx, meta, prop, clause, budget):
    """ddmin over the *transactions* of the op list; keeps the genesis (profile, hist) and every block (advance / begin /
    end stay where they are), and rejects a candidate in which a height with scheduled work is jumped over — so that the
    result is still a history a chain can have (an earlier version dropped blocks too, and some of its results fired
    clauses on the unchanged tree as well: heights advanced past an expiry without the end-blocker)"""
    ops = list(meta["ops"])
    t0 = time.time()
    tmp = os.path.join(ctx.dir, "shrink-%d.json" % os.getpid())
    def run_raw(path):
        with tempfile.TemporaryDirectory(dir=ctx.dir) as td:
            tr = os.path.join(td, "t.jsonl")
            with open(tr, "w") as fout:
                subprocess.run([ctx.drive, "-replay", path], stdout=fout, stderr=subprocess.DEVNULL, timeout=900)
            if "skippedSchedule" in open(tr).read():
                return None
            with open(tr) as fin:
                return subprocess.run([ctx.model], stdin=fin, stdout=subprocess.PIPE, stderr=subprocess.STDOUT, text=True).stdout
    def test(cand):
        json.dump(dict(meta, ops=cand), open(tmp, "w"))
        try:
            out = run_raw(tmp)
            return out is not None and fires(out, prop, clause)
        except Exception:
            return False
    # cut what follows the last step of interest first: trailing blocks may go as a whole
    txs = [i for i, o in enumerate(ops) if o.get("k") not in BLOCK_OPS]
    n = 2
    while len(txs) >= 1 and time.time() - t0 < budget:
        chunk = max(1, len(txs) // n)
        reduced = False
        for start in range(0, len(txs), chunk):
            if time.time() - t0 >= budget: break
            drop = set(txs[start:start + chunk])
            cand = [o for i, o in enumerate(ops) if i not in drop]
            if cand and test(cand):
                ops = cand; txs = [i for i, o in enumerate(ops) if o.get("k") not in BLOCK_OPS]
                n = max(n - 1, 2); reduced = True
                break
        if not reduced:
            if chunk == 1: break
            n = min(len(txs), n * 2)
    # trailing operations after the last hit are irrelevant: drop the longest suffix that keeps the hit
    lo, hi = 1, len(ops)
    while lo < hi and time.time() - t0 < budget:
        mid = (lo + hi) // 2
        if test(ops[:mid]): hi = mid
        else: lo = mid + 1
    if hi < len(ops) and test(ops[:hi]): ops = ops[:hi]
    if os.path.exists(tmp): os.remove(tmp)
    return ops

def context():
    class Ctx: pass
    ctx = Ctx(); ctx.tier = "quick"; ctx.hash = check.treehash()
    ctx.dir = os.path.join(check.CACHE, ctx.hash)
    fails = check.build(ctx)
    if fails:
        print("build failed: " + "; ".join(k for k, _ in fails)); sys.exit(2)
    return ctx

def main():
    if len(sys.argv) < 2:
        print(__doc__); sys.exit(2)
    path = os.path.abspath(sys.argv[1])
    meta = json.load(open(path))
    props = [meta["property"]] if "property" in meta else meta.get("properties", [])
    clause = None
    m = re.search(r"prop=(\w+) clause=(\w+)", meta.get("monitor", ""))
    if m: clause = m.group(2)
    ctx = context()
    out = run(ctx, path)
    shown = [l for l in out.splitlines() if l.startswith(("MISMATCH", "MONITOR", "SUMMARY", "DECODE", "PARSE"))]
    print("\n".join(l[:400] for l in shown[:60]))
    hit = any(fires(out, p, clause if "property" in meta else None) for p in props)
    if meta.get("kind") == "broken":
        hit = hit or any(l.startswith("MISMATCH") for l in shown)
    if "--shrink" in sys.argv and hit and props:
        i = sys.argv.index("--shrink")
        budget = float(sys.argv[i + 1]) if len(sys.argv) > i + 1 else 300.0
        if clause is None:
            for l in shown:
                mm = re.search(r"prop=(\w+) clause=(\w+)", l)
                if l.startswith("MONITOR") and mm and mm.group(1) == props[0]:
                    clause = mm.group(2); break
        ops = shrink(ctx, meta, props[0], clause, budget)
        outp = re.sub(r"\.json$", "", path) + ".min.json"
        json.dump(dict(meta, ops=ops, shrunk_from=len(meta["ops"])), open(outp, "w"), indent=1)
        print(f"shrunk {len(meta['ops'])} -> {len(ops)} ops: {outp}")
    print("REPRODUCED" if hit else "not reproduced on the current tree")
    sys.exit(1 if hit else 0)

if __name__ == "__main__":
    main()
