#!/bin/sh
# sweep.sh <drive binary> <seeds, e.g. "1 2 3"> [hists] [steps] : every generator profile through drive | saomodel on
# the tree the binary was built from; prints the distinct MISMATCH fields and MONITOR clauses (dev tool, false-alarm hunting)
drive=$1; seeds=$2; hists=${3:-6}; steps=${4:-300}; model=/verif/lean/.lake/build/bin/saomodel
out=${SWEEP_OUT:-/tmp/sweep}; mkdir -p $out
(cd $(dirname $model)/../../.. && lake build saomodel >/dev/null 2>&1)
for seed in $seeds; do for p in main seedpoor staking did reward lifecycle timeouts faults auth genesis pending; do
  $drive -seed $seed -hists $hists -steps $steps -profile $p -j 16 -out $out/$p-$seed.trace 2>/dev/null
  $model < $out/$p-$seed.trace > $out/$p-$seed.out
  echo "== $p seed=$seed $(grep SUMMARY $out/$p-$seed.out | cut -c1-120)"
  grep -E "^(MISMATCH|MONITOR|DECODE|PARSE)" $out/$p-$seed.out | sed -E 's/hist=[0-9]+ i=[0-9a-z]+ //; s/rec=.*//; s/impl=.*//' | sort | uniq -c | sort -rn | head -12
done; done
