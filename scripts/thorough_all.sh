#!/bin/sh
# run the thorough tier of every property from the directory this script lives in (used with `vp run`)
cd "$(dirname "$0")/.."
mkdir -p .cache
for i in 12 05 13 06 14 04 07 08 15 16 02 11 09 10 01 03 20 17 19 18; do
  python3 scripts/check.py C$i thorough > .cache/thorough_C$i.log 2>&1
  echo "C$i rc=$? kf=$(grep -c KNOWN-FINDING .cache/thorough_C$i.log) viol=$(grep -c VIOLATION .cache/thorough_C$i.log) $(grep VIOLATION .cache/thorough_C$i.log | head -2 | cut -c1-150)"
done
