#!/bin/sh
# detect_all.sh [parallelism] [seed ids...]: quick check of every seeded change against its property, in scratch
# worktrees of /repo, run from a snapshot (git worktree) of /verif HEAD so that edits in /verif do not disturb it.
# Results: /verif/seeded/<id>/detect-<prop>.log
par=${1:-3}; shift 2>/dev/null
snap=/tmp/verif-snap
git -C /verif worktree remove --force $snap 2>/dev/null; rm -rf $snap
git -C /verif worktree add -q --detach $snap HEAD || exit 2
(cd $snap && sh scripts/setup.sh > /tmp/verif-snap-setup.log 2>&1) || { echo "snapshot setup failed"; exit 2; }
ids="$@"; [ -z "$ids" ] && ids=$(ls -d /verif/seeded/C*-* | xargs -n1 basename)
echo $ids | tr ' ' '\n' | xargs -P $par -I{} sh -c 'id={}; p=${id%%-*}; d=/verif/seeded/$id; wt=/tmp/ds-$id
  git -C /repo worktree remove --force $wt 2>/dev/null; git -C /repo worktree add -q --detach $wt HEAD || exit 0
  git -C $wt apply $d/patch.diff || { echo "== $id patch does not apply"; git -C /repo worktree remove --force $wt; exit 0; }
  (cd '$snap' && VERIF_REPO=$wt python3 scripts/check.py $p quick > $d/detect-$p.log 2>&1; echo "[$p exit=$?]" >> $d/detect-$p.log)
  r=$(grep VIOLATION $d/detect-$p.log | grep -o "replay=[^ ]*" | head -1 | cut -d= -f2); [ -n "$r" ] && [ -f "$r" ] && cp "$r" $d/replay-$p.json
  sed -i "s#'$snap'#/verif#g" $d/detect-$p.log
  echo "== $id $p: $(grep -E "VIOLATION|exit=" $d/detect-$p.log | cut -c1-160 | tr "\n" " ")"
  # the per-tree caches of finished seeds (0.7 GB each) are dropped as the run goes: the forty newest stay (by count, not
  # by age: the sandbox clock is unreliable)
  (cd '$snap'/.cache && ls -td */ 2>/dev/null | tail -n +41 | xargs -r rm -rf)
  git -C /repo worktree remove --force $wt'
git -C /verif worktree remove --force $snap
