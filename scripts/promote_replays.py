#!/usr/bin/env python3
"""promote_replays.py <drive binary of the unchanged tree> [seed ids...]: turn the minimised histories that exposed the
seeded changes (seeded/<id>/replay-<prop>.json, written by detect_all.sh) into corpus scenarios harness/corpus/seeds/<id>.json
— "keep minimised past failures as a corpus that runs first". A history is only taken when, replayed on the unchanged tree,
the model agrees with the implementation on every step and no monitor clause of the property fires: minimised histories drop
blocks and operations, so some of them are not histories a chain can have (they are skipped, and listed)."""
import glob, json, os, subprocess, sys
VERIF = os.path.dirname(os.path.dirname(os.path.abspath(__file__)))
drive = sys.argv[1]; ids = sys.argv[2:] or sorted(os.path.basename(p) for p in glob.glob(VERIF + "/seeded/C*-*"))
model = VERIF + "/lean/.lake/build/bin/saomodel"
out = VERIF + "/harness/corpus/seeds"; os.makedirs(out, exist_ok=True)
taken, skipped = [], []
for sid in ids:
    prop = sid.split("-")[0]
    p = f"{VERIF}/seeded/{sid}/replay-{prop}.json"
    dst = f"{out}/{sid}.json"
    if not os.path.exists(p):
        skipped.append((sid, "no replay")); continue
    j = json.load(open(p))
    if j.get("kind") not in ("monitor", "mismatch", "monitor-after-broken-correspondence") or not j.get("ops"):
        skipped.append((sid, "kind=%s" % j.get("kind"))); continue
    what = (j.get("monitor") or j.get("mismatch") or "")[:200]
    c = {"id": "seed-" + sid, "title": f"minimised history that exposed the seeded change {sid}: {what}", "properties": [prop],
         "profile": j.get("profile", "main"), "hist": j.get("hist", 0), "ops": j["ops"]}
    if "genesis" in j: c["genesis"] = j["genesis"]
    tmp = dst + ".tmp"; json.dump(c, open(tmp, "w"))
    tr = subprocess.run([drive, "-replay", tmp], capture_output=True, timeout=600).stdout
    if b"skippedSchedule" in tr:
        os.remove(tmp); skipped.append((sid, "jumps over a height with scheduled work (not a history a chain can have)"))
        if os.path.exists(dst): os.remove(dst)
        continue
    mo = subprocess.run([model], input=tr, capture_output=True).stdout.decode()
    bad = [l for l in mo.splitlines() if l.startswith(("MISMATCH", "DECODE", "PARSE")) or (l.startswith("MONITOR") and f"prop={prop} " in l)]
    if bad or "SUMMARY" not in mo:
        os.remove(tmp); skipped.append((sid, "not silent on the unchanged tree: " + (bad[0][:120] if bad else "no summary")))
        if os.path.exists(dst): os.remove(dst)
        continue
    os.replace(tmp, dst); taken.append(sid)
print("taken", len(taken), " ".join(taken))
for s, why in skipped: print("skipped", s, why)
