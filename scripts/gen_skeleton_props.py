#!/usr/bin/env python3
"""gen_skeleton_props.py: writes lean/SaoVerif/Properties/CxxSkeleton.lean for every property — the theorem that the decision
skeletons (branch conditions and how each guard's branch ends, per function) regenerated from the anchor files of the property
are the ones the model was written and validated against (lean/SaoVerif/Spec/SkeletonExpected.lean, written once by
`extract -expect`). Static: depends on properties.jsonl only; re-run when the anchors change."""
import json, os, re
VERIF = os.path.dirname(os.path.dirname(os.path.abspath(__file__)))
mangle = lambda f: re.sub(r"[^A-Za-z0-9]", "_", f)
# files beyond the anchors whose decisions the property's model relies on just as much (the functions the anchored handlers call)
exp = open(VERIF + "/lean/SaoVerif/Spec/SkeletonExpected.lean").read()
blocks = re.findall(r"^def (\w+) : List \(String × List String\) := \[\n(.*?)^\]", exp, flags=re.M | re.S)
getall = sorted(n for n, body in blocks if re.search(r'"Keeper\.GetAll\w*"', body) and "_keeper_" in n)
EXTRA = {
    # the timeout handler re-assigns through RandomSP and gives up through CancelOrder / RefundOrder
    "C12": ["x/model/keeper/data_management.go", "x/order/keeper/order_management.go", "x/node/keeper/reputation.go"],
    # every handler that creates or removes orders, shards, models and schedule entries
    "C13": ["x/sao/keeper/msg_server_terminate.go", "x/sao/keeper/msg_server_cancel.go", "x/sao/keeper/msg_server_renew.go",
            "x/sao/keeper/msg_server_store.go", "x/sao/keeper/msg_server_ready.go", "x/order/keeper/order_management.go",
            "x/sao/keeper/expired_shard.go", "x/sao/keeper/timeout_order.go"],
    "C11": ["x/sao/keeper/msg_server_terminate.go", "x/sao/keeper/msg_server_migrate.go", "x/order/keeper/order_management.go",
            "x/node/keeper/shard_pledge_management.go"],
    "C05": ["x/market/keeper/pool_management.go", "x/node/keeper/shard_pledge_management.go"],
    "C16": ["x/order/genesis.go", "x/sao/keeper/msg_server_renew.go", "x/sao/keeper/msg_server_terminate.go"],
    "C19": ["x/node/types/params.go"],
}
for l in open(VERIF + "/properties.jsonl"):
    p = json.loads(l); pid = p["id"]; files = list(p["anchors"]["files"])
    extra = [f for f in EXTRA.get(pid, []) if f not in files]
    if pid == "C18":
        # the export reads every store through its GetAll function, the import writes it back through the setters beside it
        names = {mangle(f) for f in files}
        extra_names = [n for n in getall if n not in names]
    else:
        extra_names = [mangle(f) for f in extra]
    allnames = [mangle(f) for f in files] + extra_names
    conj = "[" + ",\n     ".join(f"Generated.Skel.{n}" for n in allnames) + "] =\n    [" + ",\n     ".join(f"Expected.Skel.{n}" for n in allnames) + "]"
    txt = f"""import SaoVerif.Generated.Skeleton
import SaoVerif.Spec.SkeletonExpected
/-!
# {pid} — the decision logic of the anchor files is the one that was modelled

The extractor (harness/cmd/extract) regenerates, on every run and from the tree under check, the *decision skeleton* of every
function: its branching constructs in source order, each guard with its condition and with how its branch ends (`return <err>`,
`continue`, `panic`, …). The hand-written model mirrors exactly these decisions (its `…Pre` / `…Guards` functions are the
guards of the handlers, in their order). This theorem says that for the files the property is anchored in
({', '.join(files)}{'; and, because the anchored code calls into them, ' + ', '.join(extra_names) if extra_names else ''}) the regenerated skeletons equal the ones the model was written against. A change of a guard, of its
order, or a new or removed branch breaks it: the correspondence then has to be re-established (the check searches the
histories for a failing input and reports the violation either way).
-/
namespace SaoVerif

theorem {pid}_decision_skeleton_as_modelled :
    {conj} := by
  decide +kernel

end SaoVerif
"""
    open(f"{VERIF}/lean/SaoVerif/Properties/{pid}Skeleton.lean", "w").write(txt)
print("ok")
