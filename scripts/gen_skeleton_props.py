#!/usr/bin/env python3
"""gen_skeleton_props.py: writes lean/SaoVerif/Properties/CxxSkeleton.lean for every property — the theorem that the decision
skeletons (branch conditions and how each guard's branch ends, per function) regenerated from the anchor files of the property
are the ones the model was written and validated against (lean/SaoVerif/Spec/SkeletonExpected.lean, written once by
`extract -expect`). Static: depends on properties.jsonl only; re-run when the anchors change."""
import json, os, re
VERIF = os.path.dirname(os.path.dirname(os.path.abspath(__file__)))
mangle = lambda f: re.sub(r"[^A-Za-z0-9]", "_", f)
for l in open(VERIF + "/properties.jsonl"):
    p = json.loads(l); pid = p["id"]; files = p["anchors"]["files"]
    conj = " ∧\n    ".join(f"Generated.Skel.{mangle(f)} = Expected.Skel.{mangle(f)}" for f in files)
    txt = f"""import SaoVerif.Generated.Skeleton
import SaoVerif.Spec.SkeletonExpected
/-!
# {pid} — the decision logic of the anchor files is the one that was modelled

The extractor (harness/cmd/extract) regenerates, on every run and from the tree under check, the *decision skeleton* of every
function: its branching constructs in source order, each guard with its condition and with how its branch ends (`return <err>`,
`continue`, `panic`, …). The hand-written model mirrors exactly these decisions (its `…Pre` / `…Guards` functions are the
guards of the handlers, in their order). This theorem says that for the files the property is anchored in
({', '.join(files)}) the regenerated skeletons equal the ones the model was written against. A change of a guard, of its
order, or a new or removed branch breaks it: the correspondence then has to be re-established (the check searches the
histories for a failing input and reports the violation either way).
-/
namespace SaoVerif

theorem {pid}_decision_skeleton_as_modelled :
    {conj} := by
  decide +kernel

end SaoVerif
"""
    open(f"{VERIF}/lean/SaoVerif/Properties/{pid}Skeleton.lean", "w").write(txt)
print("ok")
