#!/bin/sh
# verify_seed.sh <seed dir>: confirm in a scratch worktree that the demonstration passes without the
# change and fails with it, that the project builds and that the types test packages still pass.
d=$1; id=$(basename $d); wt=/tmp/vs-$id; git -C /repo worktree remove --force $wt 2>/dev/null
export GOFLAGS=-mod=mod GOPROXY=off GOSUMDB=off GOTOOLCHAIN=local
git -C /repo worktree add -q --detach $wt HEAD || exit 2
mkdir -p $wt/verifdemo && cp $d/demo_test.go $wt/verifdemo/demo_test.go
{
echo "== base: $(git -C /repo rev-parse --short HEAD)"
echo "== demo WITHOUT the change"; (cd $wt && go test -count=1 ./verifdemo/ 2>&1 | tail -5)
git -C $wt apply $d/patch.diff && echo "== patch applied"
echo "== build"; (cd $wt && go build ./app/... ./x/... ./cmd/... 2>&1 | tail -3; echo "build rc=$?")
echo "== demo WITH the change"; (cd $wt && go test -count=1 ./verifdemo/ 2>&1 | tail -12)
echo "== types tests WITH the change"; (cd $wt && go test -vet=off -count=1 ./x/market/types ./x/model/types ./x/order/types ./x/sao/types 2>&1 | tail -6)
} > $d/verify.log 2>&1
git -C /repo worktree remove --force $wt
echo "verified $id"
